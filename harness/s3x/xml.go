package s3x

import (
	"encoding/xml"
	"fmt"
	"strings"
)

// The harness decodes response documents with its own structs (it does not
// reuse gofakes3's message types in oracles).

type ErrorDoc struct {
	XMLName xml.Name `xml:"Error"`
	Code    string   `xml:"Code"`
	Message string   `xml:"Message"`
}

type ListEntry struct {
	Key  string `xml:"Key"`
	ETag string `xml:"ETag"`
	Size int64  `xml:"Size"`
}

type ListDoc struct {
	XMLName               xml.Name    `xml:"ListBucketResult"`
	Name                  string      `xml:"Name"`
	IsTruncated           bool        `xml:"IsTruncated"`
	Prefix                string      `xml:"Prefix"`
	Delimiter             string      `xml:"Delimiter"`
	MaxKeys               int64       `xml:"MaxKeys"`
	Marker                string      `xml:"Marker"`
	NextMarker            string      `xml:"NextMarker"`
	KeyCount              *int64      `xml:"KeyCount"`
	NextContinuationToken string      `xml:"NextContinuationToken"`
	EncodingType          string      `xml:"EncodingType"`
	Contents              []ListEntry `xml:"Contents"`
	CommonPrefixes        []struct {
		Prefix string `xml:"Prefix"`
	} `xml:"CommonPrefixes"`
}

func (d *ListDoc) Prefixes() []string {
	out := make([]string, 0, len(d.CommonPrefixes))
	for _, p := range d.CommonPrefixes {
		out = append(out, p.Prefix)
	}
	return out
}

type BucketsDoc struct {
	XMLName xml.Name `xml:"ListAllMyBucketsResult"`
	Buckets []struct {
		Name string `xml:"Name"`
	} `xml:"Buckets>Bucket"`
}

func (d *BucketsDoc) Names() []string {
	out := make([]string, 0, len(d.Buckets))
	for _, b := range d.Buckets {
		out = append(out, b.Name)
	}
	return out
}

type DeleteResultDoc struct {
	XMLName xml.Name `xml:"DeleteResult"`
	Deleted []struct {
		Key       string `xml:"Key"`
		VersionId string `xml:"VersionId"`
	} `xml:"Deleted"`
	Errors []struct {
		Key  string `xml:"Key"`
		Code string `xml:"Code"`
	} `xml:"Error"`
}

type CopyResultDoc struct {
	XMLName xml.Name `xml:"CopyObjectResult"`
	ETag    string   `xml:"ETag"`
}

type InitiateDoc struct {
	XMLName  xml.Name `xml:"InitiateMultipartUploadResult"`
	Bucket   string   `xml:"Bucket"`
	Key      string   `xml:"Key"`
	UploadId string   `xml:"UploadId"`
}

type CompleteDoc struct {
	XMLName  xml.Name `xml:"CompleteMultipartUploadResult"`
	Location string   `xml:"Location"`
	Bucket   string   `xml:"Bucket"`
	Key      string   `xml:"Key"`
	ETag     string   `xml:"ETag"`
}

type PartEntry struct {
	PartNumber int    `xml:"PartNumber"`
	ETag       string `xml:"ETag"`
	Size       int64  `xml:"Size"`
}

type ListPartsDoc struct {
	XMLName              xml.Name    `xml:"ListPartsResult"`
	Bucket               string      `xml:"Bucket"`
	Key                  string      `xml:"Key"`
	UploadId             string      `xml:"UploadId"`
	PartNumberMarker     int         `xml:"PartNumberMarker"`
	NextPartNumberMarker int         `xml:"NextPartNumberMarker"`
	MaxParts             int64       `xml:"MaxParts"`
	IsTruncated          bool        `xml:"IsTruncated"`
	Parts                []PartEntry `xml:"Part"`
}

type UploadEntry struct {
	Key      string `xml:"Key"`
	UploadId string `xml:"UploadId"`
}

type ListUploadsDoc struct {
	XMLName            xml.Name      `xml:"ListMultipartUploadsResult"`
	Bucket             string        `xml:"Bucket"`
	KeyMarker          string        `xml:"KeyMarker"`
	UploadIdMarker     string        `xml:"UploadIdMarker"`
	NextKeyMarker      string        `xml:"NextKeyMarker"`
	NextUploadIdMarker string        `xml:"NextUploadIdMarker"`
	MaxUploads         int64         `xml:"MaxUploads"`
	IsTruncated        bool          `xml:"IsTruncated"`
	Uploads            []UploadEntry `xml:"Upload"`
	CommonPrefixes     []struct {
		Prefix string `xml:"Prefix"`
	} `xml:"CommonPrefixes"`
}

func (d *ListUploadsDoc) Prefixes() []string {
	out := make([]string, 0, len(d.CommonPrefixes))
	for _, p := range d.CommonPrefixes {
		out = append(out, p.Prefix)
	}
	return out
}

// VersionEntry is either a <Version> or a <DeleteMarker>, in document order.
type VersionEntry struct {
	IsMarker  bool
	Key       string
	VersionId string
	IsLatest  bool
	Size      int64
	ETag      string
}

type VersionsDoc struct {
	Name                string
	IsTruncated         bool
	NextKeyMarker       string
	NextVersionIdMarker string
	KeyMarker           string
	VersionIdMarker     string
	Entries             []VersionEntry
	CommonPrefixes      []string
	EncodingType        string
}

// ParseVersions decodes a ListBucketVersionsResult keeping element order.
func ParseVersions(body []byte) (*VersionsDoc, error) {
	dec := xml.NewDecoder(strings.NewReader(string(body)))
	doc := &VersionsDoc{}
	rootSeen := false
	for {
		tok, err := dec.Token()
		if err != nil {
			if rootSeen && err.Error() == "EOF" {
				return doc, nil
			}
			return nil, err
		}
		se, ok := tok.(xml.StartElement)
		if !ok {
			continue
		}
		if !rootSeen {
			if se.Name.Local != "ListBucketVersionsResult" {
				return nil, fmt.Errorf("unexpected root %q", se.Name.Local)
			}
			rootSeen = true
			continue
		}
		switch se.Name.Local {
		case "Version", "DeleteMarker":
			var v struct {
				Key       string `xml:"Key"`
				VersionId string `xml:"VersionId"`
				IsLatest  bool   `xml:"IsLatest"`
				Size      int64  `xml:"Size"`
				ETag      string `xml:"ETag"`
			}
			if err := dec.DecodeElement(&v, &se); err != nil {
				return nil, err
			}
			doc.Entries = append(doc.Entries, VersionEntry{IsMarker: se.Name.Local == "DeleteMarker",
				Key: v.Key, VersionId: v.VersionId, IsLatest: v.IsLatest, Size: v.Size, ETag: v.ETag})
		case "CommonPrefixes":
			var p struct {
				Prefix string `xml:"Prefix"`
			}
			if err := dec.DecodeElement(&p, &se); err != nil {
				return nil, err
			}
			doc.CommonPrefixes = append(doc.CommonPrefixes, p.Prefix)
		default:
			var s string
			if err := dec.DecodeElement(&s, &se); err != nil {
				return nil, err
			}
			switch se.Name.Local {
			case "Name":
				doc.Name = s
			case "IsTruncated":
				doc.IsTruncated = s == "true"
			case "NextKeyMarker":
				doc.NextKeyMarker = s
			case "NextVersionIdMarker":
				doc.NextVersionIdMarker = s
			case "KeyMarker":
				doc.KeyMarker = s
			case "VersionIdMarker":
				doc.VersionIdMarker = s
			case "EncodingType":
				doc.EncodingType = s
			}
		}
	}
}

// ErrCode returns the <Error><Code> of a response body, or "" if it is not an
// S3 error document.
func (r *Resp) ErrCode() string {
	var e ErrorDoc
	if err := xml.Unmarshal(r.Body, &e); err != nil {
		return ""
	}
	return e.Code
}

func (r *Resp) XML(into interface{}) error {
	return xml.Unmarshal(r.Body, into)
}

// ErrorStatus is the S3 error table (AWS "Error Responses" documentation) for
// the codes this server can emit.
func ErrorStatus(code string) (int, bool) {
	switch code {
	case "BucketAlreadyExists", "BucketAlreadyOwnedByYou", "BucketNotEmpty", "OperationAborted":
		return 409, true
	case "BadDigest", "IllegalVersioningConfigurationException", "IncompleteBody",
		"IncorrectNumberOfFilesInPostRequest", "InlineDataTooLarge", "InvalidArgument",
		"InvalidBucketName", "InvalidDigest", "InvalidPart", "InvalidPartOrder", "InvalidToken",
		"InvalidURI", "KeyTooLongError", "MetadataTooLarge", "MalformedPOSTRequest", "MalformedXML",
		"TooManyBuckets", "EntityTooSmall", "EntityTooLarge", "InvalidRequest":
		return 400, true
	case "MethodNotAllowed":
		// AWS documents 405; gofakes3 deliberately maps it to 400. Both accepted by callers
		// through ErrorStatusOK.
		return 405, true
	case "RequestTimeTooSkewed", "AccessDenied":
		return 403, true
	case "InvalidRange":
		return 416, true
	case "NoSuchBucket", "NoSuchKey", "NoSuchUpload", "NoSuchVersion":
		return 404, true
	case "NotImplemented":
		return 501, true
	case "NotModified":
		return 304, true
	case "MissingContentLength":
		return 411, true
	case "InternalError":
		return 500, true
	case "PreconditionFailed":
		return 412, true
	}
	return 0, false
}

// ErrorStatusOK reports whether status is consistent with the S3 error code.
func ErrorStatusOK(code string, status int) bool {
	want, ok := ErrorStatus(code)
	if !ok {
		return false
	}
	if code == "MethodNotAllowed" {
		return status == 405 || status == 400
	}
	return want == status
}

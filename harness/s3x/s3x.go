// Package s3x is the request/response layer of the verification harness.
//
// A request is serialised to the bytes a client would put on the wire and is
// parsed with net/http's own request reader (http.ReadRequest), so the
// *http.Request the handler sees is built exactly as net/http's server builds
// it: URL from the raw request-target (uncleaned), Host moved to r.Host,
// canonical header keys, Content-Length both in the header map and in
// r.ContentLength, Body limited to the declared length and ending in
// io.ErrUnexpectedEOF when fewer bytes arrive. The byte stream under the parser
// can be fragmented arbitrarily (bufio.Reader issues at most one underlying
// Read per call, so fragment boundaries reach the handler's body reads).
package s3x

import (
	"bufio"
	"bytes"
	"errors"
	"fmt"
	"io"
	"net/http"
	"runtime/debug"
	"sort"
	"strconv"
	"strings"
	"time"
)

// Frag describes how the request bytes are handed to the parser.
type Frag struct {
	// Mode: "" or "whole" = everything in one Read; "byte" = one byte per Read;
	// "half" = two halves; "splits" = cut at the given offsets of the body;
	// "n" = fixed fragment size N.
	Mode   string `json:"mode,omitempty"`
	N      int    `json:"n,omitempty"`
	Splits []int  `json:"splits,omitempty"`
	// EOFWithData makes the last fragment return io.EOF together with its bytes.
	EOFWithData bool `json:"eofWithData,omitempty"`
}

// Req is one HTTP request, as a value.
type Req struct {
	Method string
	// Path is the *unescaped* path ("/bucket/key"); every byte that is not
	// unreserved or '/' is percent-encoded when serialised. RawTarget, if set,
	// is used verbatim as the request-target instead (must include the query).
	Path      string
	RawTarget string
	// RawSuffix is appended to the serialised path as it is (already percent-encoded), e.g.
	// "%2F" for a key that ends in an encoded slash.
	RawSuffix string
	Query     [][2]string // ordered; a pair with value "\x00" is emitted as a bare key
	Header    [][2]string
	Host      string
	Body      []byte
	// ContentLength: nil = len(Body); otherwise the declared value (the body
	// actually sent is still Body, so a larger value produces a short body).
	ContentLength *int64
	// RawContentLength, if non-empty, is sent verbatim as the Content-Length
	// header *to the handler* (after parsing with a syntactically valid one);
	// used for garbage/negative values that net/http would reject itself.
	OmitContentLength bool
	Frag              Frag
	// FailAfter >= 0 makes the body reader fail with an error after that many
	// body bytes (the handler sees a read error instead of EOF).
	FailAfter int
	UseFail   bool
	// Gate, if non-nil, is called with the body offset before each body
	// fragment is delivered (used by the schedule-controlling checks).
	Gate func(off int)
}

// Resp is what the handler produced.
type Resp struct {
	Status       int
	Header       http.Header
	Body         []byte
	Panic        string // non-empty when ServeHTTP panicked
	PanicSite    string // first gofakes3 frame of the panic
	Stack        string
	WriteHeaders int  // number of WriteHeader calls with distinct effect
	LateHeader   bool // WriteHeader after body bytes were written
	BodyWritten  int  // bytes the handler tried to write (incl. dropped HEAD bytes)
	TimedOut     bool
	ParseError   string // request could not be parsed by net/http (never reached the handler)
}

func (r *Resp) String() string {
	if r.Panic != "" {
		return "panic(" + r.PanicSite + "): " + r.Panic
	}
	b := r.Body
	if len(b) > 200 {
		b = b[:200]
	}
	return fmt.Sprintf("%d %q", r.Status, b)
}

const unreserved = "ABCDEFGHIJKLMNOPQRSTUVWXYZabcdefghijklmnopqrstuvwxyz0123456789-._~"

// EscapePath percent-encodes every byte except unreserved characters and '/'.
func EscapePath(p string) string {
	var sb strings.Builder
	for i := 0; i < len(p); i++ {
		c := p[i]
		if c == '/' || strings.IndexByte(unreserved, c) >= 0 {
			sb.WriteByte(c)
		} else {
			fmt.Fprintf(&sb, "%%%02X", c)
		}
	}
	return sb.String()
}

// EscapeQuery percent-encodes every byte except unreserved characters.
func EscapeQuery(p string) string {
	var sb strings.Builder
	for i := 0; i < len(p); i++ {
		c := p[i]
		if strings.IndexByte(unreserved, c) >= 0 {
			sb.WriteByte(c)
		} else {
			fmt.Fprintf(&sb, "%%%02X", c)
		}
	}
	return sb.String()
}

// Target returns the request-target that will be sent.
func (r *Req) Target() string {
	if r.RawTarget != "" {
		return r.RawTarget
	}
	p := EscapePath(r.Path)
	if p == "" {
		p = "/"
	}
	p += r.RawSuffix
	if len(r.Query) == 0 {
		return p
	}
	var parts []string
	for _, kv := range r.Query {
		if kv[1] == "\x00" {
			parts = append(parts, EscapeQuery(kv[0]))
		} else {
			parts = append(parts, EscapeQuery(kv[0])+"="+EscapeQuery(kv[1]))
		}
	}
	return p + "?" + strings.Join(parts, "&")
}

// Wire serialises the head of the request; the body follows separately.
func (r *Req) wireHead() []byte {
	var b bytes.Buffer
	host := r.Host
	if host == "" {
		host = "s3.test"
	}
	fmt.Fprintf(&b, "%s %s HTTP/1.1\r\nHost: %s\r\n", r.Method, r.Target(), host)
	hasCL := false
	for _, kv := range r.Header {
		if strings.EqualFold(kv[0], "Content-Length") {
			hasCL = true
		}
		fmt.Fprintf(&b, "%s: %s\r\n", kv[0], kv[1])
	}
	if !hasCL && !r.OmitContentLength {
		n := int64(len(r.Body))
		if r.ContentLength != nil {
			n = *r.ContentLength
		}
		if n > 0 || r.Method == "PUT" || r.Method == "POST" || r.ContentLength != nil {
			fmt.Fprintf(&b, "Content-Length: %d\r\n", n)
		}
	}
	b.WriteString("\r\n")
	return b.Bytes()
}

// fragReader delivers head in one piece and then the body in fragments.
type fragReader struct {
	head    []byte
	body    []byte
	cuts    []int // ascending cut offsets within body (exclusive ends of fragments)
	pos     int   // body position
	ci      int
	eofData bool
	failAt  int // -1 = never
	gate    func(int)
}

var errInjected = errors.New("verif: injected body read failure")

func (f *fragReader) Read(p []byte) (int, error) {
	if len(f.head) > 0 {
		n := copy(p, f.head)
		f.head = f.head[n:]
		return n, nil
	}
	if f.failAt >= 0 && f.pos >= f.failAt {
		return 0, errInjected
	}
	if f.pos >= len(f.body) {
		return 0, io.EOF
	}
	if f.gate != nil {
		f.gate(f.pos)
	}
	end := len(f.body)
	for f.ci < len(f.cuts) && f.cuts[f.ci] <= f.pos {
		f.ci++
	}
	if f.ci < len(f.cuts) {
		end = f.cuts[f.ci]
	}
	if f.failAt >= 0 && end > f.failAt {
		end = f.failAt
	}
	if end-f.pos > len(p) {
		end = f.pos + len(p)
	}
	n := copy(p, f.body[f.pos:end])
	f.pos += n
	if f.pos >= len(f.body) && f.eofData && f.failAt < 0 {
		return n, io.EOF
	}
	return n, nil
}

func cutsFor(fr Frag, n int) []int {
	var cuts []int
	switch fr.Mode {
	case "", "whole":
	case "byte":
		for i := 1; i < n; i++ {
			cuts = append(cuts, i)
		}
	case "half":
		if n > 1 {
			cuts = []int{n / 2}
		}
	case "n":
		if fr.N > 0 {
			for i := fr.N; i < n; i += fr.N {
				cuts = append(cuts, i)
			}
		}
	case "splits":
		for _, s := range fr.Splits {
			if s > 0 && s < n {
				cuts = append(cuts, s)
			}
		}
		sort.Ints(cuts)
	}
	return cuts
}

// recorder is a ResponseWriter following net/http's observable rules.
type recorder struct {
	hdr         http.Header
	snap        http.Header
	status      int
	wrote       bool
	body        bytes.Buffer
	method      string
	lateHeader  bool
	whCalls     int
	bodyWritten int
	wgate       func(n int) // called before each Write with the write index
	writes      int
	maxWrite    int // if > 0, Write accepts at most this many bytes per call (short write => error per io.Writer contract is avoided: we loop internally)
}

func (w *recorder) Header() http.Header { return w.hdr }

func (w *recorder) WriteHeader(code int) {
	if w.wrote {
		if w.bodyWritten > 0 || w.status != code {
			w.lateHeader = w.lateHeader || w.bodyWritten > 0
		}
		w.whCalls++
		return
	}
	w.whCalls++
	w.wrote = true
	w.status = code
	w.snap = w.hdr.Clone()
}

func bodyAllowed(method string, status int) bool {
	if method == "HEAD" {
		return false
	}
	switch {
	case status >= 100 && status <= 199, status == 204, status == 304:
		return false
	}
	return true
}

func (w *recorder) Write(p []byte) (int, error) {
	if !w.wrote {
		w.WriteHeader(200)
	}
	if w.wgate != nil {
		w.wgate(w.writes)
	}
	w.writes++
	w.bodyWritten += len(p)
	if w.method == "HEAD" {
		return len(p), nil
	}
	if !bodyAllowed(w.method, w.status) {
		return 0, http.ErrBodyNotAllowed
	}
	w.body.Write(p)
	return len(p), nil
}

// Options for Do.
type DoOpts struct {
	Timeout time.Duration // 0 = run synchronously without watchdog
	WGate   func(n int)   // gate before the n-th response Write
}

// Do runs one request against the handler in-process.
func Do(h http.Handler, rq *Req) *Resp { return DoWith(h, rq, DoOpts{}) }

func DoWith(h http.Handler, rq *Req, o DoOpts) *Resp {
	fr := &fragReader{head: rq.wireHead(), body: rq.Body, cuts: cutsFor(rq.Frag, len(rq.Body)),
		eofData: rq.Frag.EOFWithData, failAt: -1, gate: rq.Gate}
	if rq.UseFail {
		fr.failAt = rq.FailAfter
	}
	br := bufio.NewReaderSize(fr, 4096)
	hr, err := http.ReadRequest(br)
	if err != nil {
		return &Resp{ParseError: err.Error()}
	}
	hr.RemoteAddr = "192.0.2.1:1234"
	rec := &recorder{hdr: http.Header{}, method: rq.Method, wgate: o.WGate}
	resp := &Resp{}
	run := func() {
		// a fault at an unexpected address (e.g. a slice into an unmapped bolt page) is
		// fatal to the process by default; make it an ordinary, recoverable panic here
		defer debug.SetPanicOnFault(debug.SetPanicOnFault(true))
		defer func() {
			if p := recover(); p != nil {
				resp.Panic = fmt.Sprint(p)
				resp.Stack = string(debug.Stack())
				resp.PanicSite = panicSite(resp.Stack)
			}
		}()
		h.ServeHTTP(rec, hr)
	}
	if o.Timeout > 0 {
		done := make(chan struct{})
		go func() { defer close(done); run() }()
		select {
		case <-done:
		case <-time.After(o.Timeout):
			return &Resp{TimedOut: true}
		}
	} else {
		run()
	}
	if !rec.wrote {
		rec.WriteHeader(200)
	}
	resp.Status = rec.status
	resp.Header = rec.snap
	resp.Body = rec.body.Bytes()
	resp.LateHeader = rec.lateHeader
	resp.WriteHeaders = rec.whCalls
	resp.BodyWritten = rec.bodyWritten
	return resp
}

// panicSite extracts the first stack frame inside gofakes3 from a stack dump.
func panicSite(stack string) string {
	lines := strings.Split(stack, "\n")
	seenPanic := false
	for _, l := range lines {
		if strings.HasPrefix(l, "panic(") {
			seenPanic = true
			continue
		}
		if !seenPanic {
			continue
		}
		if strings.HasPrefix(l, "github.com/johannesboyne/gofakes3") {
			// strip args
			if i := strings.LastIndex(l, "("); i > 0 {
				l = l[:i]
			}
			l = strings.TrimPrefix(l, "github.com/johannesboyne/gofakes3")
			return strings.TrimPrefix(l, "/")
		}
	}
	return "unknown"
}

// ---- helpers to build requests -------------------------------------------------

func Q(kv ...string) [][2]string {
	var out [][2]string
	for i := 0; i+1 < len(kv); i += 2 {
		out = append(out, [2]string{kv[i], kv[i+1]})
	}
	return out
}

// Bare marks a query key without '=' and value.
const Bare = "\x00"

func H(kv ...string) [][2]string { return Q(kv...) }

func I64(v int64) *int64 { return &v }

func (r *Resp) ContentLength() (int64, bool) {
	v := r.Header.Get("Content-Length")
	if v == "" {
		return 0, false
	}
	n, err := strconv.ParseInt(v, 10, 64)
	if err != nil {
		return 0, false
	}
	return n, true
}

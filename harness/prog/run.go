package prog

import (
	"bytes"
	"crypto/md5"
	"encoding/base64"
	"encoding/xml"
	"fmt"
	"io"
	"mime/multipart"
	"net/textproto"
	"net/url"
	"sort"
	"strings"
	"time"

	"verif/harness/backends"
	"verif/harness/evid"
	"verif/harness/s3x"

	"github.com/johannesboyne/gofakes3"
)

type Disc = evid.Disc

// Runner executes operations against a stack and judges every response with
// the reference model.
type Runner struct {
	St *backends.Stack
	M  *Model
	// invN counts the reads of the invariant (selects their conditional headers)
	invN int
	// cvN counts the versions CheckVersions has read (every other one conditionally)
	cvN int
	// Addr maps (bucket, rest-of-path) to the Host and path actually sent; nil =
	// path-style on the default host. Used by C16.
	Addr func(bucket, rest string) (host, path string)
	// Classify may attach a known-finding id to a discrepancy.
	Classify func(op Op, d *Disc)
	// Last is the response of the last step (for callers that need raw access).
	Last *s3x.Resp
	// Do performs the request; defaults to s3x.Do on the stack's handler.
	Do func(rq *s3x.Req) *s3x.Resp
	// NoTick keeps the fixed clock still (twin-stack comparisons tick themselves).
	NoTick bool
	// taint: keys that may legitimately carry the sentinel header a copy request sent
	// (destinations of such copies, and copies of those); anywhere else it is foreign metadata.
	taint map[string]bool
}

// SentinelHeader is only ever sent with copy requests.
const SentinelHeader = "X-Amz-Meta-Only-On-Copy"

func (r *Runner) foreignMeta(resp *s3x.Resp, b, k, what string) []Disc {
	if resp.Header.Get(SentinelHeader) != "" && !r.taint[b+"\x00"+k] {
		return fail("foreign-metadata", "%s carries %s, which was only ever sent with copy requests addressed to other keys", what, SentinelHeader)
	}
	return nil
}

func NewRunner(st *backends.Stack) *Runner {
	single := ""
	if st.Kind.IsSingle() {
		single = backends.SingleBucketName
	}
	m := NewModel(st.Opts.AutoBucket, single)
	m.NoVer = st.Opts.NoVersioning || st.Kind != backends.Mem
	m.Hier = st.Kind.IsFs()
	return &Runner{St: st, M: m}
}

func (r *Runner) do(rq *s3x.Req) *s3x.Resp {
	var resp *s3x.Resp
	if r.Do != nil {
		resp = r.Do(rq)
	} else {
		resp = s3x.Do(r.St.Handler, rq)
	}
	r.Last = resp
	return resp
}

func (r *Runner) req(method, bucket, rest string, q [][2]string, hdr [][2]string, body []byte) *s3x.Req {
	p := "/" + bucket
	if rest != "" {
		p += "/" + rest
	}
	rq := &s3x.Req{Method: method, Path: p, Query: q, Header: hdr, Body: body}
	if r.Addr != nil {
		rq.Host, rq.Path = r.Addr(bucket, rest)
	}
	return rq
}

func fail(kind, f string, a ...interface{}) []Disc { return evid.D(kind, f, a...) }

// expectErr checks an error answer: status, S3 error document with the code.
func expectErr(resp *s3x.Resp, method string, status int, code string, what string) []Disc {
	if resp.Panic != "" {
		return fail("panic", "%s: %s at %s", what, resp.Panic, resp.PanicSite)
	}
	if resp.Status != status {
		return fail("wrong-status", "%s: want %d %s, got %s", what, status, code, resp)
	}
	if method != "HEAD" {
		if got := resp.ErrCode(); got != code {
			return fail("wrong-error-code", "%s: want code %s, got %q (%s)", what, code, got, resp)
		}
	}
	return nil
}

func expectStatus(resp *s3x.Resp, status int, what string) []Disc {
	if resp.Panic != "" {
		return fail("panic", "%s: %s at %s", what, resp.Panic, resp.PanicSite)
	}
	if resp.Status != status {
		return fail("wrong-status", "%s: want %d, got %s", what, status, resp)
	}
	return nil
}

func metaMap(kv [][2]string) map[string]string {
	m := map[string]string{}
	for _, e := range kv {
		m[textproto.CanonicalMIMEHeaderKey(e[0])] = e[1]
	}
	return m
}

func mergeMeta(base, over map[string]string) map[string]string {
	out := map[string]string{}
	for k, v := range base {
		out[k] = v
	}
	for k, v := range over {
		out[k] = v
	}
	return out
}

// checkObject compares a successful GET/HEAD answer with the expected version.
func checkObject(resp *s3x.Resp, method string, v *MVersion, what string) []Disc {
	var ds []Disc
	if method == "GET" && !bytes.Equal(resp.Body, v.Body) {
		ds = append(ds, fail("wrong-body", "%s: body differs: got %d bytes (md5 %s) want %d bytes (md5 %s)", what, len(resp.Body), MD5Hex(resp.Body), len(v.Body), MD5Hex(v.Body))...)
	}
	if method == "HEAD" && len(resp.Body) != 0 {
		ds = append(ds, fail("head-body", "%s: HEAD answered with %d body bytes", what, len(resp.Body))...)
	}
	if cl, ok := resp.ContentLength(); !ok || cl != int64(len(v.Body)) {
		ds = append(ds, fail("wrong-length", "%s: Content-Length %d (present=%v) want %d", what, cl, ok, len(v.Body))...)
	}
	if et := resp.Header.Get("ETag"); et != ETag(v.Body) {
		// multipart objects carry a composite ETag only in the complete response; a later
		// GET reports the MD5 of the stored bytes on every backend, which is what C01 states.
		ds = append(ds, fail("wrong-etag", "%s: ETag %s want %s", what, et, ETag(v.Body))...)
	}
	for k, want := range v.Meta {
		if !IsMetaHeader(k) {
			continue
		}
		if got := resp.Header.Get(k); got != want {
			ds = append(ds, fail("wrong-metadata", "%s: header %s = %q want %q", what, k, got, want)...)
		}
	}
	return ds
}

// VersionID resolves a symbolic version reference for a key.
func (r *Runner) VersionID(b, k string, ref int) string {
	mb := r.M.bucket(b)
	if mb == nil || mb.Keys[k] == nil || len(mb.Keys[k].Ever) == 0 {
		// a syntactically plausible ID that was never issued
		return "3/NEVERISSUED000000000000000000000000000000000000"
	}
	ever := mb.Keys[k].Ever
	if ref < 0 {
		// negative references count from the most recently issued ID (-1 = newest)
		return ever[len(ever)-1-((-ref-1)%len(ever))]
	}
	return ever[ref%len(ever)]
}

// Upload resolves a symbolic upload reference (nil = none initiated yet).
func (r *Runner) Upload(ref int) *MUpload {
	if len(r.M.Uploads) == 0 {
		return nil
	}
	if ref < 0 {
		ref = -ref
	}
	return r.M.Uploads[ref%len(r.M.Uploads)]
}

// Step executes one operation and returns the discrepancies it shows.
func (r *Runner) Step(op Op) []Disc {
	if !r.NoTick {
		r.St.Tick()
	}
	ds := r.step(op)
	if r.Classify != nil {
		for i := range ds {
			r.Classify(op, &ds[i])
		}
	}
	for i := range ds {
		ds[i].Detail = "[" + op.String() + "] " + ds[i].Detail
	}
	return ds
}

func (r *Runner) step(op Op) []Disc {
	m := r.M
	switch op.K {
	case "mkbucket":
		resp := r.do(r.req("PUT", op.B, "", nil, nil, nil))
		if m.Single != "" {
			return expectErr(resp, "PUT", 501, "NotImplemented", "create bucket on a single-bucket backend")
		}
		if m.bucket(op.B) != nil {
			return expectErr(resp, "PUT", 409, "BucketAlreadyExists", "re-create bucket")
		}
		if d := expectStatus(resp, 200, "create bucket"); d != nil {
			return d
		}
		m.Buckets[op.B] = &MBucket{Keys: map[string]*MKey{}}
		return nil

	case "headbucket":
		resp := r.do(r.req("HEAD", op.B, "", nil, nil, nil))
		if m.ensure(op.B) == nil {
			return expectErr(resp, "HEAD", 404, "NoSuchBucket", "head absent bucket")
		}
		if d := expectStatus(resp, 200, "head bucket"); d != nil {
			return d
		}
		if len(resp.Body) != 0 {
			return fail("head-body", "HEAD bucket answered with a body")
		}
		return nil

	case "rmbucket":
		resp := r.do(r.req("DELETE", op.B, "", nil, nil, nil))
		mb := m.ensure(op.B)
		if mb == nil {
			return expectErr(resp, "DELETE", 404, "NoSuchBucket", "delete absent bucket")
		}
		if m.Single != "" {
			return expectErr(resp, "DELETE", 501, "NotImplemented", "delete the bucket of a single-bucket backend")
		}
		live, entries := len(mb.LiveKeys()), mb.EntryCount()
		switch {
		case live > 0:
			return expectErr(resp, "DELETE", 409, "BucketNotEmpty", fmt.Sprintf("delete bucket holding %d live keys", live))
		case entries == 0:
			if d := expectStatus(resp, 204, "delete bucket whose objects have all been deleted"); d != nil {
				return d
			}
			delete(m.Buckets, op.B)
			return nil
		default:
			// only delete markers / non-current versions remain: the statement is silent
			if resp.Status == 204 {
				delete(m.Buckets, op.B)
				return nil
			}
			return expectErr(resp, "DELETE", 409, "BucketNotEmpty", "delete bucket holding only non-current versions")
		}

	case "lsbuckets":
		resp := r.do(&s3x.Req{Method: "GET", Path: "/"})
		if d := expectStatus(resp, 200, "list buckets"); d != nil {
			return d
		}
		var doc s3x.BucketsDoc
		if err := resp.XML(&doc); err != nil {
			return fail("bad-xml", "ListBuckets: %v", err)
		}
		got := doc.Names()
		sort.Strings(got)
		var want []string
		for b := range m.Buckets {
			want = append(want, b)
		}
		sort.Strings(want)
		if !eq(got, want) {
			return fail("wrong-buckets", "ListBuckets = %v want %v", got, want)
		}
		return nil

	case "put":
		return r.stepPut(op)

	case "get", "head":
		method := strings.ToUpper(op.K)
		resp := r.do(r.req(method, op.B, op.Key, nil, nil, nil))
		mb := m.ensure(op.B)
		if mb == nil {
			return expectErr(resp, method, 404, "NoSuchBucket", op.K+" in absent bucket")
		}
		v := mb.Live(op.Key)
		if v == nil {
			return expectErr(resp, method, 404, "NoSuchKey", op.K+" of a key that is not live")
		}
		if d := expectStatus(resp, 200, op.K+" live key"); d != nil {
			return d
		}
		ds := checkObject(resp, method, v, op.K+" "+op.B+"/"+op.Key)
		ds = append(ds, r.foreignMeta(resp, op.B, op.Key, op.K+" "+op.B+"/"+op.Key)...)
		if id := resp.Header.Get("x-amz-version-id"); id != "" && v.ID != "" && id != v.ID {
			ds = append(ds, fail("wrong-version-served", "unqualified %s reports version %s, newest remaining is %s", op.K, id, v.ID)...)
		}
		return ds

	case "del":
		resp := r.do(r.req("DELETE", op.B, op.Key, nil, nil, nil))
		mb := m.ensure(op.B)
		if mb == nil {
			return expectErr(resp, "DELETE", 404, "NoSuchBucket", "delete in absent bucket")
		}
		if d := expectStatus(resp, 204, "delete object"); d != nil {
			return d
		}
		id := ""
		if mb.Versioning == "Enabled" {
			if resp.Header.Get("x-amz-delete-marker") == "true" {
				id = resp.Header.Get("x-amz-version-id")
				if id == "" {
					return fail("marker-without-id", "delete marker created but no x-amz-version-id returned")
				}
				if m.AllIDs[id] {
					return fail("duplicate-version-id", "delete marker ID %s was issued before", id)
				}
			} else if mb.Keys[op.Key] != nil && len(mb.Keys[op.Key].Entries) > 0 {
				return fail("no-delete-marker", "plain delete of a key with %d entries in an Enabled bucket did not report a delete marker", len(mb.Keys[op.Key].Entries))
			}
		}
		mb.applyDelete(m, op.Key, id)
		return nil

	case "mdel":
		return r.stepMultiDelete(op)

	case "copy":
		return r.stepCopy(op)

	case "list":
		resp := r.do(r.req("GET", op.B, "", nil, nil, nil))
		mb := m.ensure(op.B)
		if mb == nil {
			return expectErr(resp, "GET", 404, "NoSuchBucket", "list absent bucket")
		}
		if d := expectStatus(resp, 200, "list bucket"); d != nil {
			return d
		}
		var doc s3x.ListDoc
		if err := resp.XML(&doc); err != nil {
			return fail("bad-xml", "ListBucket: %v", err)
		}
		var got []string
		var ds []Disc
		for _, c := range doc.Contents {
			got = append(got, c.Key)
			if v := mb.Live(c.Key); v != nil {
				if c.Size != int64(len(v.Body)) || c.ETag != ETag(v.Body) {
					ds = append(ds, fail("list-entry", "listing entry %s: size %d etag %s, stored object has %d %s", c.Key, c.Size, c.ETag, len(v.Body), ETag(v.Body))...)
				}
			}
		}
		sort.Strings(got)
		if want := mb.LiveKeys(); !eq(got, want) {
			ds = append(ds, fail("list-keys", "listing of %s = %v want %v", op.B, got, want)...)
		}
		return ds

	case "setver":
		return r.stepSetVersioning(op)
	case "getver", "headver":
		return r.stepGetVersion(op)
	case "delver":
		return r.stepDeleteVersion(op)

	case "init", "part", "complete", "abort":
		return r.stepMultipart(op)
	case "tick":
		// let the file systems' modification times move on (real time: the fs backends do not
		// use the injected clock)
		time.Sleep(15 * time.Millisecond)
		return nil
	}
	return fail("harness", "unknown op %q", op.K)
}

func eq(a, b []string) bool {
	if len(a) != len(b) {
		return false
	}
	for i := range a {
		if a[i] != b[i] {
			return false
		}
	}
	return true
}

// expectRefused: a client error with an error document (the statement does not name the
// code), never a panic, a 5xx or an acknowledgement.
func expectRefused(resp *s3x.Resp, what string) []Disc {
	if resp.Panic != "" {
		return fail("panic", "%s: %s at %s", what, resp.Panic, resp.PanicSite)
	}
	if resp.Status < 400 || resp.Status > 499 || resp.ErrCode() == "" {
		return fail("conflicting-key-not-refused", "%s: want a 4xx error document, got %s", what, resp)
	}
	return nil
}

func (r *Runner) stepPut(op Op) []Disc {
	m := r.M
	meta := metaMap(op.Meta)
	switch op.Via {
	case "api":
		mb := m.bucket(op.B)
		if mb == nil {
			return nil // not generated: the Backend contract does not cover it
		}
		bm := map[string]string{}
		for k, v := range meta {
			bm[k] = v
		}
		res, err := r.St.Backend.PutObject(op.B, op.Key, bm, bytes.NewReader(op.Body), int64(len(op.Body)))
		if m.Hier && mb.Conflicts(op.Key) {
			// outside the file system backends' key domain: must be refused and change nothing
			if err == nil {
				return fail("conflicting-key-accepted", "Backend.PutObject(%s,%s) succeeded although the key collides with a live key's file or directory", op.B, op.Key)
			}
			return nil
		}
		if err != nil {
			return fail("api-put-failed", "Backend.PutObject(%s,%s): %v", op.B, op.Key, err)
		}
		id := string(res.VersionID)
		if mb.Versioning == "Enabled" {
			if id == "" {
				return fail("no-version-id", "Backend.PutObject in an Enabled bucket returned no version ID")
			}
			if m.AllIDs[id] {
				return fail("duplicate-version-id", "version ID %s was issued before", id)
			}
		}
		mb.applyPut(m, op.Key, op.Body, meta, id)
		return nil
	case "post":
		var buf bytes.Buffer
		mw := multipart.NewWriter(&buf)
		mw.WriteField("key", op.Key)
		fw, _ := mw.CreateFormFile("file", "upload.bin")
		fw.Write(op.Body)
		mw.Close()
		resp := r.do(r.req("POST", op.B, "", nil, s3x.H("Content-Type", mw.FormDataContentType()), buf.Bytes()))
		mb := m.ensure(op.B)
		if mb == nil {
			return expectErr(resp, "POST", 404, "NoSuchBucket", "form upload into absent bucket")
		}
		if m.Hier && mb.Conflicts(op.Key) {
			return expectRefused(resp, "form upload to a key that collides with a live key's file or directory")
		}
		if d := expectStatus(resp, 200, "browser form upload"); d != nil {
			return d
		}
		if et := resp.Header.Get("ETag"); et != ETag(op.Body) {
			return fail("wrong-etag", "form upload ETag %s want %s", et, ETag(op.Body))
		}
		mb.applyPut(m, op.Key, op.Body, map[string]string{}, resp.Header.Get("x-amz-version-id"))
		return nil
	}
	resp := r.do(r.req("PUT", op.B, op.Key, nil, op.Meta, op.Body))
	mb := m.ensure(op.B)
	if mb == nil {
		return expectErr(resp, "PUT", 404, "NoSuchBucket", "put into absent bucket")
	}
	if m.Hier && mb.Conflicts(op.Key) {
		return expectRefused(resp, "PUT of a key that collides with a live key's file or directory")
	}
	if d := expectStatus(resp, 200, "put object"); d != nil {
		return d
	}
	if et := resp.Header.Get("ETag"); et != ETag(op.Body) {
		return fail("wrong-etag", "PUT ETag %s want %s", et, ETag(op.Body))
	}
	id := resp.Header.Get("x-amz-version-id")
	if mb.Versioning == "Enabled" {
		if id == "" {
			return fail("no-version-id", "PUT into an Enabled bucket returned no x-amz-version-id")
		}
		if m.AllIDs[id] {
			return fail("duplicate-version-id", "version ID %s was issued before", id)
		}
	}
	mb.applyPut(m, op.Key, op.Body, meta, id)
	return nil
}

func (r *Runner) stepCopy(op Op) []Disc {
	m := r.M
	src := "/" + op.SB + "/" + url.QueryEscape(op.SKey)
	hdr := append([][2]string{{"X-Amz-Copy-Source", src}}, op.Meta...)
	if op.Via == "directive-copy" {
		// the explicit spelling of the default: the destination gets the source's metadata
		hdr = append(hdr, [2]string{"X-Amz-Metadata-Directive", "COPY"})
	}
	resp := r.do(r.req("PUT", op.B, op.Key, nil, hdr, nil))
	db := m.ensure(op.B)
	if db == nil {
		return expectErr(resp, "PUT", 404, "NoSuchBucket", "copy into absent bucket")
	}
	sb := m.bucket(op.SB)
	if sb == nil {
		return expectErr(resp, "PUT", 404, "NoSuchBucket", "copy from absent bucket")
	}
	sv := sb.Live(op.SKey)
	if sv == nil {
		return expectErr(resp, "PUT", 404, "NoSuchKey", "copy of a key that is not live")
	}
	if m.Hier && db.Conflicts(op.Key) {
		return expectRefused(resp, "copy onto a key that collides with a live key's file or directory")
	}
	if d := expectStatus(resp, 200, "copy object"); d != nil {
		return d
	}
	var doc s3x.CopyResultDoc
	if err := resp.XML(&doc); err != nil {
		return fail("bad-xml", "CopyObjectResult: %v", err)
	}
	var ds []Disc
	if doc.ETag != ETag(sv.Body) {
		ds = append(ds, fail("wrong-etag", "CopyObjectResult ETag %s want the source's %s", doc.ETag, ETag(sv.Body))...)
	}
	meta := map[string]string{}
	for k, v := range sv.Meta {
		if IsMetaHeader(k) {
			meta[k] = v
		}
	}
	meta = mergeMeta(meta, metaMap(op.Meta))
	body := append([]byte(nil), sv.Body...)
	if r.taint == nil {
		r.taint = map[string]bool{}
	}
	if _, sent := metaMap(op.Meta)[SentinelHeader]; sent || r.taint[op.SB+"\x00"+op.SKey] {
		r.taint[op.B+"\x00"+op.Key] = true
	}
	db.applyPut(m, op.Key, body, meta, "")
	return ds
}

// NullRef as a multi-delete version reference sends the version ID "null" (only meaningful in
// buckets that never had versioning).
const NullRef = -2000000

func (r *Runner) stepMultiDelete(op Op) []Disc {
	m := r.M
	type obj struct {
		Key       string `xml:"Key"`
		VersionId string `xml:"VersionId,omitempty"`
	}
	type delReq struct {
		XMLName xml.Name `xml:"Delete"`
		Quiet   bool     `xml:"Quiet,omitempty"`
		Objects []obj    `xml:"Object"`
	}
	dr := delReq{Quiet: op.Quiet}
	// resolve the symbolic version references; an entry naming the same (key, version) as an
	// earlier one is dropped (what a request with such a duplicate means is not stated)
	{
		var keys []string
		var refs []int
		seen := map[string]bool{}
		for i, k := range op.Keys {
			ref := -1000000
			if i < len(op.VRefs) {
				ref = op.VRefs[i]
			}
			id := ""
			if ref >= 0 {
				id = r.VersionID(op.B, k, ref)
			}
			if seen[k+"\x00"+id] {
				continue
			}
			seen[k+"\x00"+id] = true
			keys, refs = append(keys, k), append(refs, ref)
		}
		op.Keys, op.VRefs = keys, refs
	}
	ids := make([]string, len(op.Keys))
	sentNull := map[string]bool{}
	for i, k := range op.Keys {
		if op.VRefs[i] >= 0 {
			ids[i] = r.VersionID(op.B, k, op.VRefs[i])
		}
		sent := ids[i]
		if op.VRefs[i] == NullRef {
			// the spelling a never-versioned bucket's listing shows for its entries: it means
			// "no version", like ?versionId=null on a single delete
			sent = "null"
			sentNull[k] = true
		}
		dr.Objects = append(dr.Objects, obj{Key: k, VersionId: sent})
	}
	body, _ := xml.Marshal(dr)
	resp := r.do(r.req("POST", op.B, "", s3x.Q("delete", s3x.Bare), nil, body))
	mb := m.ensure(op.B)
	if mb == nil {
		return expectErr(resp, "POST", 404, "NoSuchBucket", "multi-delete in absent bucket")
	}
	if d := expectStatus(resp, 200, "multi-delete"); d != nil {
		return d
	}
	var doc s3x.DeleteResultDoc
	if err := resp.XML(&doc); err != nil {
		return fail("bad-xml", "DeleteResult: %v", err)
	}
	var ds []Disc
	if len(doc.Errors) > 0 {
		ds = append(ds, fail("mdel-error", "DeleteResult carries errors: %+v", doc.Errors)...)
	}
	var got []string
	for _, d := range doc.Deleted {
		if sentNull[d.Key] && d.VersionId == "null" {
			d.VersionId = "" // echoed as sent
		}
		got = append(got, d.Key+"\x00"+d.VersionId)
	}
	var want []string
	if !op.Quiet {
		for i, k := range op.Keys {
			want = append(want, k+"\x00"+ids[i])
		}
	}
	sort.Strings(got)
	sort.Strings(want)
	if !eq(got, want) {
		ds = append(ds, fail("mdel-deleted", "DeleteResult Deleted = %q want %q", got, want)...)
	}
	for i, k := range op.Keys {
		if ids[i] != "" {
			mb.applyDeleteVersion(k, ids[i])
			continue
		}
		if mb.Versioning == "Enabled" {
			// the marker ID is not reported by multi-delete: learn it from the model's
			// point of view as "a marker with an unknown ID"
			if mk := mb.Keys[k]; mk != nil && len(mk.Entries) > 0 {
				mk.Entries = append(mk.Entries, &MVersion{Marker: true, ID: "?unknown-marker"})
			}
			continue
		}
		mb.applyDelete(m, k, "")
	}
	return ds
}

// ---- versioning --------------------------------------------------------------------

func (r *Runner) stepSetVersioning(op Op) []Disc {
	m := r.M
	body := []byte(`<VersioningConfiguration xmlns="http://s3.amazonaws.com/doc/2006-03-01/"><Status>` + op.Status + `</Status></VersioningConfiguration>`)
	resp := r.do(r.req("PUT", op.B, "", s3x.Q("versioning", s3x.Bare), nil, body))
	mb := m.ensure(op.B)
	if mb == nil {
		return expectErr(resp, "PUT", 404, "NoSuchBucket", "set versioning on absent bucket")
	}
	if m.NoVer {
		if op.Status == "Enabled" {
			return expectErr(resp, "PUT", 501, "NotImplemented", "enable versioning on a backend without versioning")
		}
		return expectStatus(resp, 200, "suspend versioning on a backend without versioning")
	}
	if d := expectStatus(resp, 200, "set versioning"); d != nil {
		return d
	}
	if op.Status == "Enabled" {
		mb.Versioning = "Enabled"
	} else if mb.Versioning == "Enabled" {
		mb.Versioning = "Suspended"
	}
	return nil
}

func (r *Runner) stepGetVersion(op Op) []Disc {
	m := r.M
	method := "GET"
	if op.K == "headver" {
		method = "HEAD"
	}
	id := r.VersionID(op.B, op.Key, op.Ref)
	resp := r.do(r.req(method, op.B, op.Key, s3x.Q("versionId", id), nil, nil))
	mb := m.ensure(op.B)
	if mb == nil {
		return expectErr(resp, method, 404, "NoSuchBucket", "read version in absent bucket")
	}
	if resp.Panic != "" {
		return fail("panic", "%s ?versionId: %s at %s", method, resp.Panic, resp.PanicSite)
	}
	var v *MVersion
	if mk := mb.Keys[op.Key]; mk != nil {
		if i := mk.find(id); i >= 0 {
			v = mk.Entries[i]
		}
	}
	what := fmt.Sprintf("%s %s/%s?versionId=%s", method, op.B, op.Key, id)
	switch {
	case v == nil:
		if resp.Status != 404 {
			return fail("removed-version-served", "%s: version does not exist, want 404, got %s", what, resp)
		}
		if method == "GET" {
			if c := resp.ErrCode(); c != "NoSuchVersion" && c != "NoSuchKey" {
				return fail("wrong-error-code", "%s: want NoSuchVersion/NoSuchKey got %q", what, c)
			}
		}
		return nil
	case v.Marker:
		if resp.Status != 404 && resp.Status != 405 {
			return fail("marker-read", "%s: a delete marker must answer 404 or 405, got %s", what, resp)
		}
		return nil
	}
	if d := expectStatus(resp, 200, what); d != nil {
		return d
	}
	ds := checkObject(resp, method, v, what)
	if got := resp.Header.Get("x-amz-version-id"); got != id {
		ds = append(ds, fail("wrong-version-id-header", "%s: x-amz-version-id %q", what, got)...)
	}
	return ds
}

func (r *Runner) stepDeleteVersion(op Op) []Disc {
	m := r.M
	id := r.VersionID(op.B, op.Key, op.Ref)
	resp := r.do(r.req("DELETE", op.B, op.Key, s3x.Q("versionId", id), nil, nil))
	mb := m.ensure(op.B)
	if mb == nil {
		return expectErr(resp, "DELETE", 404, "NoSuchBucket", "delete version in absent bucket")
	}
	if d := expectStatus(resp, 204, "delete version"); d != nil {
		return d
	}
	mb.applyDeleteVersion(op.Key, id)
	return nil
}

// CheckVersions reads every remaining enabled-era version of every key of the
// bucket by ID (GET and HEAD) and the unqualified read of every key.
func (r *Runner) CheckVersions(b string) []Disc {
	mb := r.M.bucket(b)
	if mb == nil {
		return nil
	}
	var ds []Disc
	keys := make([]string, 0, len(mb.Keys))
	for k := range mb.Keys {
		keys = append(keys, k)
	}
	sort.Strings(keys)
	for _, k := range keys {
		for _, e := range mb.Keys[k].Entries {
			if e.Marker || e.Null || e.ID == "" || strings.HasPrefix(e.ID, "?") {
				continue
			}
			r.cvN++
			for _, method := range []string{"GET", "HEAD"} {
				// every other version is read with the ETag of a different version of the key (the
				// newest one with other bytes) as If-None-Match: the addressed version does not match
				// it, so the read is answered like a plain one
				var cond [][2]string
				what := fmt.Sprintf("%s %s/%s?versionId=%s", method, b, k, e.ID)
				if r.cvN%2 == 0 {
					ents := mb.Keys[k].Entries
					for i := len(ents) - 1; i >= 0; i-- {
						if o := ents[i]; o != e && !o.Marker && ETag(o.Body) != ETag(e.Body) {
							cond = s3x.H("If-None-Match", ETag(o.Body))
							what += " (If-None-Match of another version's bytes)"
							break
						}
					}
				}
				resp := r.do(r.req(method, b, k, s3x.Q("versionId", e.ID), cond, nil))
				if d := expectStatus(resp, 200, "version must stay retrievable: "+what); d != nil {
					d[0].Kind = "version-lost:" + d[0].Kind
					ds = append(ds, d...)
					continue
				}
				ds = append(ds, checkObject(resp, method, e, what)...)
				if got := resp.Header.Get("x-amz-version-id"); got != e.ID {
					ds = append(ds, fail("wrong-version-id-header", "%s: x-amz-version-id %q", what, got)...)
				}
			}
		}
	}
	return ds
}

// ---- invariant ---------------------------------------------------------------------

// Invariant reads every key the model knows in every bucket (unqualified GET)
// and checks ListBuckets.
func (r *Runner) Invariant(universeKeys []string) []Disc {
	var ds []Disc
	bs := make([]string, 0, len(r.M.Buckets))
	for b := range r.M.Buckets {
		bs = append(bs, b)
	}
	sort.Strings(bs)
	for _, b := range bs {
		mb := r.M.Buckets[b]
		seen := map[string]bool{}
		keys := append([]string(nil), universeKeys...)
		for k := range mb.Keys {
			keys = append(keys, k)
		}
		sort.Strings(keys)
		for _, k := range keys {
			if seen[k] {
				continue
			}
			seen[k] = true
			// every third read carries a condition that any stored object meets (changed since a
			// date before every write; not the ETag of other bytes): it is answered like a plain read
			var cond [][2]string
			what := "invariant GET " + b + "/" + k
			r.invN++
			switch r.invN % 3 {
			case 1:
				cond = s3x.H("If-Modified-Since", "Mon, 01 Jan 1990 00:00:00 GMT")
				what += " (If-Modified-Since 1990)"
			case 2:
				cond = s3x.H("If-None-Match", `"00000000000000000000000000000000"`)
				what += " (If-None-Match of other bytes)"
			}
			// and every fifth one is a HEAD: it sees the key exactly as a GET does
			method := "GET"
			if r.invN%5 == 4 {
				method = "HEAD"
				what = "invariant HEAD" + what[len("invariant GET"):]
			}
			resp := r.do(r.req(method, b, k, nil, cond, nil))
			v := mb.Live(k)
			if v == nil {
				ds = append(ds, expectErr(resp, method, 404, "NoSuchKey", what+" (not live)")...)
				continue
			}
			if d := expectStatus(resp, 200, what); d != nil {
				ds = append(ds, d...)
				continue
			}
			ds = append(ds, checkObject(resp, method, v, what)...)
			ds = append(ds, r.foreignMeta(resp, b, k, what)...)
		}
	}
	if r.Classify != nil {
		for i := range ds {
			r.Classify(Op{K: "invariant"}, &ds[i])
		}
	}
	return ds
}

// ---- multipart ---------------------------------------------------------------------

func wrongETag(n int) string { return ETag([]byte(fmt.Sprintf("not the bytes of part %d", n))) }

func (r *Runner) stepMultipart(op Op) []Disc {
	m := r.M
	switch op.K {
	case "init":
		resp := r.do(r.req("POST", op.B, op.Key, s3x.Q("uploads", s3x.Bare), op.Meta, nil))
		if m.ensure(op.B) == nil {
			return expectErr(resp, "POST", 404, "NoSuchBucket", "initiate upload in absent bucket")
		}
		if d := expectStatus(resp, 200, "initiate multipart upload"); d != nil {
			return d
		}
		var doc s3x.InitiateDoc
		if err := resp.XML(&doc); err != nil || doc.UploadId == "" {
			return fail("bad-xml", "InitiateMultipartUploadResult: %v %q", err, resp.Body)
		}
		for _, u := range m.Uploads {
			if u.ID == doc.UploadId {
				return fail("duplicate-upload-id", "upload ID %s was issued before", doc.UploadId)
			}
		}
		if doc.Key != op.Key || doc.Bucket != op.B {
			return fail("init-doc", "InitiateMultipartUploadResult names %s/%s, want %s/%s", doc.Bucket, doc.Key, op.B, op.Key)
		}
		m.Uploads = append(m.Uploads, &MUpload{ID: doc.UploadId, B: op.B, Key: op.Key, Meta: metaMap(op.Meta), Parts: map[int]*MPart{}, Seq: len(m.Uploads)})
		m.HadUp[op.B] = true
		return nil

	case "part":
		u := r.Upload(op.Ref)
		if u == nil {
			return nil
		}
		if op.Via == "bad-md5" {
			// a part sent with the digest of other bytes: refused, and the upload keeps what it had
			// (only generated where the integrity check is on)
			sum := md5.Sum(append([]byte("not the bytes of this part: "), op.Body...))
			resp := r.do(r.req("PUT", u.B, u.Key, s3x.Q("partNumber", fmt.Sprint(op.PartN), "uploadId", u.ID), s3x.H("Content-MD5", base64.StdEncoding.EncodeToString(sum[:])), op.Body))
			if resp.Panic != "" {
				return fail("panic", "upload part with a wrong digest: %s at %s", resp.Panic, resp.PanicSite)
			}
			if resp.Status/100 == 2 {
				return fail("corrupt-part-accepted", "part %d of upload %s sent with the Content-MD5 of other bytes was answered %s", op.PartN, u.ID, resp)
			}
			return nil
		}
		resp := r.do(r.req("PUT", u.B, u.Key, s3x.Q("partNumber", fmt.Sprint(op.PartN), "uploadId", u.ID), nil, op.Body))
		if u.Gone {
			return expectErr(resp, "PUT", 404, "NoSuchUpload", "upload part to a finished upload")
		}
		if op.PartN < 1 || op.PartN > 10000 {
			return expectErr(resp, "PUT", 400, "InvalidPart", fmt.Sprintf("part number %d outside 1..10000", op.PartN))
		}
		if d := expectStatus(resp, 200, "upload part"); d != nil {
			return d
		}
		if et := resp.Header.Get("ETag"); et != ETag(op.Body) {
			return fail("wrong-etag", "part ETag %s want %s", et, ETag(op.Body))
		}
		p := u.Parts[op.PartN]
		if p == nil {
			p = &MPart{}
			u.Parts[op.PartN] = p
		} else {
			p.Prev = append(p.Prev, p.ETag)
		}
		p.Body, p.ETag = op.Body, ETag(op.Body)
		return nil

	case "abort":
		u := r.Upload(op.Ref)
		if u == nil {
			return nil
		}
		resp := r.do(r.req("DELETE", u.B, u.Key, s3x.Q("uploadId", u.ID), nil, nil))
		if u.Gone {
			return expectErr(resp, "DELETE", 404, "NoSuchUpload", "abort a finished upload")
		}
		if d := expectStatus(resp, 204, "abort upload"); d != nil {
			return d
		}
		u.Gone = true
		return nil

	case "complete":
		u := r.Upload(op.Ref)
		if u == nil {
			return nil
		}
		type cpart struct {
			PartNumber int    `xml:"PartNumber"`
			ETag       string `xml:"ETag"`
		}
		type creq struct {
			XMLName xml.Name `xml:"CompleteMultipartUpload"`
			Parts   []cpart  `xml:"Part"`
		}
		var cr creq
		invalid := "" // "" = valid
		asc := true
		var bodies [][]byte
		for i, p := range op.Parts {
			mp := u.Parts[p.N]
			et := ""
			switch {
			case mp == nil:
				et = wrongETag(p.N)
				if invalid == "" {
					invalid = "InvalidPart"
				}
			case p.Tag == "stale" && len(mp.Prev) > 0 && mp.Prev[len(mp.Prev)-1] != mp.ETag:
				et = mp.Prev[len(mp.Prev)-1]
				if invalid == "" {
					invalid = "InvalidPart"
				}
			case p.Tag == "wrong" || p.Tag == "stale":
				et = wrongETag(p.N)
				if et == mp.ETag {
					et = ETag([]byte("x"))
				}
				if invalid == "" {
					invalid = "InvalidPart"
				}
			default:
				et = mp.ETag
				bodies = append(bodies, mp.Body)
			}
			if i > 0 && op.Parts[i-1].N >= p.N {
				asc = false
			}
			cr.Parts = append(cr.Parts, cpart{p.N, et})
		}
		body, _ := xml.Marshal(cr)
		resp := r.do(r.req("POST", u.B, u.Key, s3x.Q("uploadId", u.ID), nil, body))
		if u.Gone {
			return expectErr(resp, "POST", 404, "NoSuchUpload", "complete a finished upload")
		}
		if resp.Panic != "" {
			return fail("panic", "complete: %s at %s", resp.Panic, resp.PanicSite)
		}
		if len(op.Parts) == 0 {
			// an empty part list is outside the statement; accept any 4xx, or success with an empty object
			if resp.Status >= 400 && resp.Status < 500 {
				return nil
			}
			if resp.Status == 200 {
				u.Gone = true
				if mb := m.bucket(u.B); mb != nil {
					mb.applyPut(m, u.Key, []byte{}, u.Meta, resp.Header.Get("x-amz-version-id"))
				}
				return nil
			}
			return fail("wrong-status", "complete with an empty list: %s", resp)
		}
		if !asc || invalid != "" {
			// rejected: 400 InvalidPartOrder / InvalidPart; which one is reported when both
			// apply is not fixed by the statement.
			if resp.Status != 400 {
				kind := "invalid-complete-accepted"
				if !asc && invalid == "" {
					kind = "out-of-order-complete-accepted"
				}
				if resp.Status == 200 {
					// the implementation stored something: resynchronise the model so that the
					// program can go on (the discrepancy is reported once).
					u.Gone = true
					var cat []byte
					for _, p := range op.Parts {
						if mp := u.Parts[p.N]; mp != nil {
							cat = append(cat, mp.Body...)
						}
					}
					if mb := m.bucket(u.B); mb != nil {
						mb.applyPut(m, u.Key, cat, u.Meta, resp.Header.Get("x-amz-version-id"))
					}
				}
				return fail(kind, "complete %v (ascending=%v, invalid=%q) must be rejected with 400, got %s", op.Parts, asc, invalid, resp)
			}
			code := resp.ErrCode()
			okCode := (invalid != "" && code == "InvalidPart") || (!asc && code == "InvalidPartOrder")
			if !okCode {
				return fail("wrong-error-code", "rejected complete (ascending=%v invalid=%q) answered code %q", asc, invalid, code)
			}
			return nil
		}
		if mb := m.bucket(u.B); m.Hier && mb != nil && mb.Conflicts(u.Key) {
			// outside the file system backends' key domain while the other key is live: refused,
			// nothing stored, the upload stays pending
			return expectRefused(resp, "complete of an upload whose key collides with a live key's file or directory")
		}
		if d := expectStatus(resp, 200, "complete upload"); d != nil {
			return d
		}
		var doc s3x.CompleteDoc
		if err := resp.XML(&doc); err != nil {
			return fail("bad-xml", "CompleteMultipartUploadResult: %v", err)
		}
		var ds []Disc
		if want := MultipartETag(bodies); doc.ETag != want {
			ds = append(ds, fail("wrong-multipart-etag", "complete ETag %s want %s", doc.ETag, want)...)
		}
		if doc.Key != u.Key || doc.Bucket != u.B {
			ds = append(ds, fail("complete-doc", "result names %s/%s want %s/%s", doc.Bucket, doc.Key, u.B, u.Key)...)
		}
		var cat []byte
		for _, b := range bodies {
			cat = append(cat, b...)
		}
		u.Gone = true
		mb := m.bucket(u.B)
		if mb == nil {
			mb = m.ensure(u.B)
		}
		if mb != nil {
			id := resp.Header.Get("x-amz-version-id")
			if mb.Versioning == "Enabled" {
				if id == "" {
					ds = append(ds, fail("no-version-id", "complete in an Enabled bucket returned no version id")...)
				} else if m.AllIDs[id] {
					ds = append(ds, fail("duplicate-version-id", "version ID %s was issued before", id)...)
				}
			}
			mb.applyPut(m, u.Key, cat, u.Meta, id)
		}
		return ds
	}
	return nil
}

// CheckUpload compares ListParts of a pending upload with the model (numbers,
// sizes, ETags, ascending) and checks that finished uploads answer NoSuchUpload.
func (r *Runner) CheckUpload(u *MUpload) []Disc {
	resp := r.do(r.req("GET", u.B, u.Key, s3x.Q("uploadId", u.ID), nil, nil))
	if u.Gone {
		return expectErr(resp, "GET", 404, "NoSuchUpload", "ListParts of finished upload "+u.ID)
	}
	if d := expectStatus(resp, 200, "ListParts of pending upload "+u.ID); d != nil {
		return d
	}
	var doc s3x.ListPartsDoc
	if err := resp.XML(&doc); err != nil {
		return fail("bad-xml", "ListPartsResult: %v", err)
	}
	var nums []int
	for n := range u.Parts {
		nums = append(nums, n)
	}
	sort.Ints(nums)
	var want, got []string
	for _, n := range nums {
		want = append(want, fmt.Sprintf("%d:%d:%s", n, len(u.Parts[n].Body), u.Parts[n].ETag))
	}
	for _, p := range doc.Parts {
		got = append(got, fmt.Sprintf("%d:%d:%s", p.PartNumber, p.Size, p.ETag))
	}
	// a page holds at most 1000 parts: follow the server's marker for the rest
	for pages := 0; doc.IsTruncated && pages < 12; pages++ {
		resp = r.do(r.req("GET", u.B, u.Key, s3x.Q("uploadId", u.ID, "part-number-marker", fmt.Sprint(doc.NextPartNumberMarker)), nil, nil))
		if d := expectStatus(resp, 200, "next page of ListParts of pending upload "+u.ID); d != nil {
			return d
		}
		doc = s3x.ListPartsDoc{}
		if err := resp.XML(&doc); err != nil {
			return fail("bad-xml", "ListPartsResult: %v", err)
		}
		for _, p := range doc.Parts {
			got = append(got, fmt.Sprintf("%d:%d:%s", p.PartNumber, p.Size, p.ETag))
		}
	}
	if !eq(got, want) {
		if len(got) > 40 || len(want) > 40 {
			return fail("parts-mismatch", "ListParts(%s) returned %d parts, the upload holds %d; first difference at index %d", u.ID, len(got), len(want), firstDiff(got, want))
		}
		return fail("parts-mismatch", "ListParts(%s) = %v want %v", u.ID, got, want)
	}
	return nil
}

// FormPost sends a browser form upload of key into bucket.
func (r *Runner) FormPost(bucket, key string, body []byte) *s3x.Resp {
	var buf bytes.Buffer
	mw := multipart.NewWriter(&buf)
	mw.WriteField("key", key)
	fw, _ := mw.CreateFormFile("file", "upload.bin")
	fw.Write(body)
	mw.Close()
	return r.do(r.req("POST", bucket, "", nil, s3x.H("Content-Type", mw.FormDataContentType()), buf.Bytes()))
}

// ---- direct Backend API driver (the MUSTs of backend.go) -----------------------------

// APIStep executes op through the Go Backend interface where backend.go
// documents the outcome with MUST; other ops are ignored (returns nil, false).
func (r *Runner) APIStep(op Op) ([]Disc, bool) {
	be := r.St.Backend
	m := r.M
	switch op.K {
	case "mkbucket":
		if m.Single != "" {
			return nil, false
		}
		err := be.CreateBucket(op.B)
		if m.bucket(op.B) != nil {
			if !gofakes3.HasErrorCode(err, gofakes3.ErrBucketAlreadyExists) {
				return fail("api-contract", "CreateBucket(existing) = %v, MUST be ErrBucketAlreadyExists", err), true
			}
			return nil, true
		}
		if err != nil {
			return fail("api-contract", "CreateBucket(%s) = %v", op.B, err), true
		}
		m.Buckets[op.B] = &MBucket{Keys: map[string]*MKey{}}
		return nil, true
	case "rmbucket":
		if m.Single != "" {
			return nil, false
		}
		err := be.DeleteBucket(op.B)
		mb := m.bucket(op.B)
		switch {
		case mb == nil:
			if !gofakes3.HasErrorCode(err, gofakes3.ErrNoSuchBucket) {
				return fail("api-contract", "DeleteBucket(absent) = %v, MUST be ErrNoSuchBucket", err), true
			}
		case len(mb.LiveKeys()) > 0:
			if !gofakes3.HasErrorCode(err, gofakes3.ErrBucketNotEmpty) {
				return fail("api-contract", "DeleteBucket(non-empty) = %v, MUST be ErrBucketNotEmpty", err), true
			}
		default:
			if err != nil {
				return fail("api-contract", "DeleteBucket(empty) = %v", err), true
			}
			delete(m.Buckets, op.B)
		}
		return nil, true
	case "copy":
		// Backend.CopyObject with a nil metadata map (PutObject documents that the map may be nil,
		// and CopyObject hands it through): the destination gets the source's bytes and the source
		// stays as it is. What metadata the destination ends up with is not stated: none is expected.
		db, sb := m.bucket(op.B), m.bucket(op.SB)
		if db == nil || sb == nil {
			return nil, false
		}
		sv := sb.Live(op.SKey)
		if sv == nil || (m.Hier && db.Conflicts(op.Key)) {
			return nil, false
		}
		var err error
		func() {
			defer func() {
				if p := recover(); p != nil {
					err = fmt.Errorf("panic: %v", p)
				}
			}()
			_, err = be.CopyObject(op.SB, op.SKey, op.B, op.Key, nil)
		}()
		if err != nil {
			return fail("api-contract", "CopyObject(%s/%s -> %s/%s, nil) = %v", op.SB, op.SKey, op.B, op.Key, err), true
		}
		if r.taint == nil {
			r.taint = map[string]bool{}
		}
		if r.taint[op.SB+"\x00"+op.SKey] {
			r.taint[op.B+"\x00"+op.Key] = true
		}
		db.applyPut(m, op.Key, append([]byte(nil), sv.Body...), map[string]string{}, "")
		return nil, true
	case "put":
		if m.bucket(op.B) == nil {
			return nil, false
		}
		o := op
		o.Via = "api"
		return r.stepPut(o), true
	case "get", "head":
		mb := m.bucket(op.B)
		if mb == nil {
			return nil, false
		}
		var obj *gofakes3.Object
		var err error
		if op.K == "get" {
			obj, err = be.GetObject(op.B, op.Key, nil)
		} else {
			obj, err = be.HeadObject(op.B, op.Key)
		}
		v := mb.Live(op.Key)
		if v == nil {
			if !gofakes3.HasErrorCode(err, gofakes3.ErrNoSuchKey) {
				return fail("api-contract", "%sObject(missing key) = %v, must be ErrNoSuchKey", op.K, err), true
			}
			return nil, true
		}
		if err != nil {
			return fail("api-contract", "%sObject(%s/%s) = %v", op.K, op.B, op.Key, err), true
		}
		defer obj.Contents.Close()
		var ds []Disc
		if obj.Size != int64(len(v.Body)) {
			ds = append(ds, fail("api-size", "%sObject Size %d want %d", op.K, obj.Size, len(v.Body))...)
		}
		if fmt.Sprintf("%x", obj.Hash) != MD5Hex(v.Body) {
			ds = append(ds, fail("api-hash", "%sObject Hash %x want %s", op.K, obj.Hash, MD5Hex(v.Body))...)
		}
		if op.K == "get" {
			b, rerr := io.ReadAll(obj.Contents)
			if rerr != nil || !bytes.Equal(b, v.Body) {
				ds = append(ds, fail("api-body", "GetObject contents differ (%d bytes, err %v)", len(b), rerr)...)
			}
		}
		for k, want := range v.Meta {
			if IsMetaHeader(k) && obj.Metadata[k] != want {
				ds = append(ds, fail("api-metadata", "%sObject Metadata[%s] = %q want %q", op.K, k, obj.Metadata[k], want)...)
			}
		}
		return ds, true
	case "del":
		_, err := be.DeleteObject(op.B, op.Key)
		mb := m.bucket(op.B)
		if mb == nil {
			if !gofakes3.HasErrorCode(err, gofakes3.ErrNoSuchBucket) {
				return fail("api-contract", "DeleteObject(absent bucket) = %v, MUST be ErrNoSuchBucket", err), true
			}
			return nil, true
		}
		if err != nil {
			return fail("api-contract", "DeleteObject = %v, MUST NOT fail for a missing key", err), true
		}
		if mb.Versioning == "Enabled" {
			return nil, true // not used with versioning
		}
		mb.applyDelete(m, op.Key, "")
		return nil, true
	case "list":
		mb := m.bucket(op.B)
		ol, err := be.ListBucket(op.B, nil, gofakes3.ListBucketPage{})
		if mb == nil {
			if !gofakes3.HasErrorCode(err, gofakes3.ErrNoSuchBucket) {
				return fail("api-contract", "ListBucket(absent) = %v, MUST be ErrNoSuchBucket", err), true
			}
			return nil, true
		}
		if err != nil {
			return fail("api-contract", "ListBucket(%s) = %v", op.B, err), true
		}
		var got []string
		for _, c := range ol.Contents {
			got = append(got, c.Key)
		}
		sort.Strings(got)
		if want := mb.LiveKeys(); !eq(got, want) {
			return fail("api-list", "ListBucket(%s) = %v want %v", op.B, got, want), true
		}
		return nil, true
	}
	return nil, false
}

func firstDiff(a, b []string) int {
	for i := 0; i < len(a) && i < len(b); i++ {
		if a[i] != b[i] {
			return i
		}
	}
	if len(a) < len(b) {
		return len(a)
	}
	return len(b)
}

package prog

import (
	"sort"
	"strings"
)

// ---- reference model ---------------------------------------------------------------
//
// Written from the property statements (C02, C05, C06 and Appendix A of
// DESIGN.md), not from the implementation.

type MVersion struct {
	ID     string
	Body   []byte
	Meta   map[string]string // metadata sent with the upload (canonical header name -> value)
	Marker bool
	Null   bool // created while versioning was not Enabled ("null" version)
}

type MKey struct {
	Entries []*MVersion // creation order; the last one is the newest
	Ever    []string    // every version ID ever returned for this key (live or not)
	// NullWrites counts uploads/deletes made while versioning was not enabled.
	// The model keeps at most one "null" entry; an implementation may keep more
	// of them (the statements only protect versions created while enabled).
	NullWrites int
}

type MBucket struct {
	Versioning string // "" (never), "Enabled", "Suspended"
	Keys       map[string]*MKey
}

type MPart struct {
	Body []byte
	ETag string
	Prev []string // ETags of earlier uploads of this part number
}

type MUpload struct {
	ID    string
	B     string
	Key   string
	Meta  map[string]string
	Parts map[int]*MPart
	Gone  bool // completed or aborted
	Seq   int  // initiation order
}

type Model struct {
	Buckets map[string]*MBucket
	Auto    bool
	Single  string // non-empty: the only bucket that exists and can exist
	NoVer   bool   // server configured WithoutVersioning
	Hier    bool   // file system backend: a key cannot be stored below another key or where other keys' directory is
	AllIDs  map[string]bool
	Uploads []*MUpload
	HadUp   map[string]bool
}

func NewModel(auto bool, single string) *Model {
	m := &Model{Buckets: map[string]*MBucket{}, Auto: auto, Single: single, AllIDs: map[string]bool{}, HadUp: map[string]bool{}}
	if single != "" {
		m.Buckets[single] = &MBucket{Keys: map[string]*MKey{}}
	}
	return m
}

func (m *Model) bucket(b string) *MBucket { return m.Buckets[b] }

// ensure implements auto-bucket for bucket-scoped requests: returns the bucket
// or nil when the request must be answered NoSuchBucket.
func (m *Model) ensure(b string) *MBucket {
	if mb := m.Buckets[b]; mb != nil {
		return mb
	}
	if m.Auto && m.Single == "" {
		mb := &MBucket{Keys: map[string]*MKey{}}
		m.Buckets[b] = mb
		return mb
	}
	return nil
}

func (mb *MBucket) key(k string) *MKey {
	mk := mb.Keys[k]
	if mk == nil {
		mk = &MKey{}
		mb.Keys[k] = mk
	}
	return mk
}

// Newest returns the newest remaining entry of the key (nil if none).
func (mb *MBucket) Newest(k string) *MVersion {
	mk := mb.Keys[k]
	if mk == nil || len(mk.Entries) == 0 {
		return nil
	}
	return mk.Entries[len(mk.Entries)-1]
}

// Live returns the version an unqualified read must serve (nil = NoSuchKey).
func (mb *MBucket) Live(k string) *MVersion {
	v := mb.Newest(k)
	if v == nil || v.Marker {
		return nil
	}
	return v
}

// Conflicts reports whether key k cannot coexist with the live keys of a hierarchical
// (file system) store: some other live key is a path prefix of k ("a" vs "a/q") or k is
// a path prefix of a live key ("d" vs "d/x").
func (mb *MBucket) Conflicts(k string) bool {
	for _, l := range mb.LiveKeys() {
		if l != k && (strings.HasPrefix(k, l+"/") || strings.HasPrefix(l, k+"/")) {
			return true
		}
	}
	return false
}

func (mb *MBucket) LiveKeys() []string {
	var ks []string
	for k := range mb.Keys {
		if mb.Live(k) != nil {
			ks = append(ks, k)
		}
	}
	sort.Strings(ks)
	return ks
}

func (mb *MBucket) EntryCount() int {
	n := 0
	for _, mk := range mb.Keys {
		n += len(mk.Entries)
	}
	return n
}

func (mk *MKey) find(id string) int {
	for i, e := range mk.Entries {
		if e.ID == id && id != "" {
			return i
		}
	}
	return -1
}

func (mk *MKey) removeAt(i int) {
	mk.Entries = append(mk.Entries[:i:i], mk.Entries[i+1:]...)
}

func (mk *MKey) dropNull() {
	for i, e := range mk.Entries {
		if e.Null {
			mk.removeAt(i)
			return
		}
	}
}

// applyPut records an acknowledged upload. id is the version ID the server
// returned ("" when none).
func (mb *MBucket) applyPut(m *Model, k string, body []byte, meta map[string]string, id string) {
	mk := mb.key(k)
	v := &MVersion{ID: id, Body: body, Meta: meta}
	if mb.Versioning == "Enabled" {
		if id != "" {
			mk.Ever = append(mk.Ever, id)
			m.AllIDs[id] = true
		}
		mk.Entries = append(mk.Entries, v)
		return
	}
	// never versioned or suspended: the upload replaces the "null" version;
	// versions created while versioning was enabled stay.
	mk.NullWrites++
	v.Null = true
	v.ID = ""
	mk.dropNull()
	mk.Entries = append(mk.Entries, v)
}

// applyDelete records a plain delete. markerID is the delete-marker ID the
// server returned ("" = none).
func (mb *MBucket) applyDelete(m *Model, k string, markerID string) {
	mk := mb.Keys[k]
	if mb.Versioning == "Enabled" {
		if markerID == "" {
			return // nothing recorded (key never existed)
		}
		if mk == nil {
			mk = mb.key(k)
		}
		mk.Ever = append(mk.Ever, markerID)
		m.AllIDs[markerID] = true
		mk.Entries = append(mk.Entries, &MVersion{ID: markerID, Marker: true})
		return
	}
	if mk == nil {
		return
	}
	mk.NullWrites++
	mk.dropNull()
	if mb.Versioning == "Suspended" && len(mk.Entries) > 0 {
		// the key must read as deleted although enabled-era versions remain:
		// S3 records a "null" delete marker.
		mk.Entries = append(mk.Entries, &MVersion{Marker: true, Null: true})
	}
	mb.forgetIfEmpty(k)
}

// forgetIfEmpty drops a key without entries from the model, unless writes were made to it
// while versioning was not enabled in a bucket that has (had) versioning: the model holds at
// most one "null" entry per key, the implementation may keep every such write as a version of
// its own, so the key may legitimately still be listed by ListObjectVersions (NullWrites bounds
// how many entries). Such a key reads as NoSuchKey.
func (mb *MBucket) forgetIfEmpty(k string) {
	mk := mb.Keys[k]
	if mk == nil || len(mk.Entries) > 0 {
		return
	}
	if mb.Versioning == "" || mk.NullWrites == 0 {
		delete(mb.Keys, k)
	}
}

func (mb *MBucket) applyDeleteVersion(k, id string) {
	mk := mb.Keys[k]
	if mk == nil {
		return
	}
	if i := mk.find(id); i >= 0 {
		mk.removeAt(i)
	}
	mb.forgetIfEmpty(k)
}

// UserMeta filters the headers that the statement of C01 calls metadata.
func IsMetaHeader(canon string) bool {
	return strings.HasPrefix(canon, "X-Amz-Meta-") || canon == "Content-Type" || canon == "Content-Encoding" || canon == "Content-Disposition"
}

func (m *Model) PendingUploads(b string) []*MUpload {
	var out []*MUpload
	for _, u := range m.Uploads {
		if !u.Gone && u.B == b {
			out = append(out, u)
		}
	}
	return out
}

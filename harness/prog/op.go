// Package prog defines operation programs as plain values (JSON), the
// reference model of S3 semantics they are judged against, and the interpreter
// that runs them against a backend stack.
package prog

import (
	"crypto/md5"
	"encoding/hex"
	"fmt"
)

// Part is one entry of a CompleteMultipartUpload request.
type Part struct {
	N int `json:"n"`
	// Tag selects the ETag sent: "" = ETag of the current upload of part N,
	// "stale" = ETag of the previous upload of part N (falls back to "wrong"
	// when there is none), "wrong" = a syntactically valid ETag of other bytes.
	Tag string `json:"tag,omitempty"`
}

// Op is one operation of a program.
type Op struct {
	K    string      `json:"op"`
	B    string      `json:"b,omitempty"`
	Key  string      `json:"key,omitempty"`
	Body []byte      `json:"body,omitempty"`
	Meta [][2]string `json:"meta,omitempty"`
	// copy source
	SB   string `json:"sb,omitempty"`
	SKey string `json:"skey,omitempty"`
	// multi-delete
	Keys  []string `json:"keys,omitempty"`
	VRefs []int    `json:"vrefs,omitempty"` // parallel to Keys; -1 = no version
	Quiet bool     `json:"quiet,omitempty"`
	// symbolic reference: version index for *ver ops, upload index for multipart ops
	Ref    int    `json:"ref,omitempty"`
	Status string `json:"status,omitempty"` // setver: Enabled | Suspended
	PartN  int    `json:"partN,omitempty"`
	Parts  []Part `json:"parts,omitempty"`
	// Via: "" = HTTP PUT etc.; "api" = direct Backend call; "post" = browser form upload;
	// part: "bad-md5" = sent with the Content-MD5 of other bytes
	Via string `json:"via,omitempty"`
}

func (o Op) String() string {
	switch o.K {
	case "put":
		return fmt.Sprintf("put %s/%s (%d bytes)", o.B, o.Key, len(o.Body))
	case "copy":
		return fmt.Sprintf("copy %s/%s -> %s/%s", o.SB, o.SKey, o.B, o.Key)
	case "mdel":
		return fmt.Sprintf("mdel %s %v vrefs=%v quiet=%v", o.B, o.Keys, o.VRefs, o.Quiet)
	case "setver":
		return fmt.Sprintf("setver %s %s", o.B, o.Status)
	case "getver", "headver", "delver":
		return fmt.Sprintf("%s %s/%s ref=%d", o.K, o.B, o.Key, o.Ref)
	case "part":
		if o.Via != "" {
			return fmt.Sprintf("part up#%d n=%d (%d bytes, %s)", o.Ref, o.PartN, len(o.Body), o.Via)
		}
		return fmt.Sprintf("part up#%d n=%d (%d bytes)", o.Ref, o.PartN, len(o.Body))
	case "complete":
		return fmt.Sprintf("complete up#%d %v", o.Ref, o.Parts)
	case "init":
		return fmt.Sprintf("init %s/%s", o.B, o.Key)
	case "abort", "lsparts":
		return fmt.Sprintf("%s up#%d", o.K, o.Ref)
	}
	if o.Key != "" {
		return fmt.Sprintf("%s %s/%s", o.K, o.B, o.Key)
	}
	return fmt.Sprintf("%s %s", o.K, o.B)
}

func MD5Hex(b []byte) string {
	s := md5.Sum(b)
	return hex.EncodeToString(s[:])
}

func ETag(b []byte) string { return `"` + MD5Hex(b) + `"` }

// MultipartETag is hex(md5(md5(p1) || … || md5(pn))) + "-n", quoted.
func MultipartETag(parts [][]byte) string {
	h := md5.New()
	for _, p := range parts {
		s := md5.Sum(p)
		h.Write(s[:])
	}
	return fmt.Sprintf(`"%s-%d"`, hex.EncodeToString(h.Sum(nil)), len(parts))
}

// Pattern returns a deterministic body of n bytes derived from seed.
func Pattern(n int, seed uint64) []byte {
	b := make([]byte, n)
	x := seed*0x9E3779B97F4A7C15 + 0x1234567
	for i := range b {
		x ^= x << 13
		x ^= x >> 7
		x ^= x << 17
		b[i] = byte(x)
	}
	return b
}

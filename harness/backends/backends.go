// Package backends builds the configuration matrix the properties quantify over.
package backends

import (
	"bytes"
	"fmt"
	"io"
	"net/http"
	"os"
	"path/filepath"
	"sync/atomic"
	"time"

	"github.com/johannesboyne/gofakes3"
	"github.com/johannesboyne/gofakes3/backend/s3afero"
	"github.com/johannesboyne/gofakes3/backend/s3bolt"
	"github.com/johannesboyne/gofakes3/backend/s3mem"
	"github.com/spf13/afero"
	bolt "go.etcd.io/bbolt"
)

type Kind string

const (
	Mem       Kind = "mem"
	Bolt      Kind = "bolt"
	MultiMem  Kind = "fs-multi-memfs"
	MultiDir  Kind = "fs-multi-dir"
	SingleMem Kind = "fs-single-memfs"
	SingleDir Kind = "fs-single-dir"
	// MemStream is s3mem behind a wrapper whose PutObject consumes the body
	// reader with a fixed buffer size (Options.StreamBuf) instead of one
	// full-size read, the way a streaming third-party Backend would
	// (the Backend interface hands PutObject an io.Reader).
	MemStream Kind = "mem-stream"
)

var All = []Kind{Mem, Bolt, MultiMem, MultiDir, SingleMem, SingleDir}
var KV = []Kind{Mem, Bolt}
var Persistent = []Kind{Bolt, MultiDir, SingleDir}

func (k Kind) IsFs() bool     { return k != Mem && k != Bolt }
func (k Kind) IsSingle() bool { return k == SingleMem || k == SingleDir }
func (k Kind) IsDir() bool    { return k == MultiDir || k == SingleDir }

// SingleBucketName is the one bucket of the single-bucket configurations.
const SingleBucketName = "bk0"

type Options struct {
	AutoBucket      bool     `json:"autoBucket,omitempty"`
	HostBucket      bool     `json:"hostBucket,omitempty"`
	HostBases       []string `json:"hostBases,omitempty"`
	NoVersioning    bool     `json:"noVersioning,omitempty"`
	UnimplPageError bool     `json:"unimplPageError,omitempty"`
	IntegrityOff    bool     `json:"integrityOff,omitempty"`
	MetaLimit       int      `json:"metaLimit,omitempty"` // 0 = default
	TimeSkew        bool     `json:"timeSkew,omitempty"`  // false = skew check disabled
	BoltSync        bool     `json:"boltSync,omitempty"`  // true = real fsync (C15)
	// ClockHook, if set, is called whenever the server or the backend reads the clock.
	ClockHook func() `json:"-"`
	// BoltCopyOf, if set, is a bolt database file that is copied into the new stack before it is
	// opened (C15: the file as a kill -9 at some instant would have left it).
	BoltCopyOf string `json:"-"`
	StreamBuf       int      `json:"streamBuf,omitempty"` // MemStream: consumer buffer size (default 32 KiB)
	// PutHook, if set, is called at the start of every Backend.PutObject (schedule control:
	// the harness can hold an upload or a multipart completion at the storage boundary).
	PutHook func(bucket, key string) `json:"-"`
	// WrapFs, if set, wraps the object and metadata file systems of the fs
	// backends (fault injection). Not serialised.
	WrapFs func(afero.Fs) afero.Fs `json:"-"`
}

type Stack struct {
	Kind    Kind
	Opts    Options
	Backend gofakes3.Backend
	Faker   *gofakes3.GoFakeS3
	Handler http.Handler
	Clock   gofakes3.TimeSourceAdvancer

	guard   *guardFs
	dir     string // scratch directory owned by the stack ("" for pure in-memory)
	boltDB  *bolt.DB
	memFs   afero.Fs // MemMapFs for the *Mem fs kinds (survives Reopen)
	memMeta afero.Fs
}

var T0 = time.Date(2020, 1, 2, 3, 4, 5, 0, time.UTC)

// New builds a stack. The caller must Close it.
func New(kind Kind, o Options) (*Stack, error) {
	s := &Stack{Kind: kind, Opts: o, Clock: gofakes3.FixedTimeSource(T0)}
	if kind == Bolt || kind.IsDir() {
		d, err := os.MkdirTemp("", "verif-"+string(kind)+"-")
		if err != nil {
			return nil, err
		}
		s.dir = d
	}
	if o.ClockHook != nil {
		s.Clock = &hookedClock{TimeSourceAdvancer: s.Clock, hook: o.ClockHook}
	}
	if kind == Bolt && o.BoltCopyOf != "" {
		b, err := os.ReadFile(o.BoltCopyOf)
		if err != nil {
			return nil, err
		}
		if err := os.WriteFile(filepath.Join(s.dir, "s3.db"), b, 0600); err != nil {
			return nil, err
		}
	}
	if kind == MultiMem || kind == SingleMem {
		s.memFs = afero.NewMemMapFs()
		s.memMeta = afero.NewMemMapFs()
	}
	if err := s.open(); err != nil {
		s.Close()
		return nil, err
	}
	return s, nil
}

// Must is New that panics on error (harness failure, not a verdict).
func Must(kind Kind, o Options) *Stack {
	s, err := New(kind, o)
	if err != nil {
		panic(fmt.Errorf("harness: cannot build %s stack: %v", kind, err))
	}
	return s
}

func (s *Stack) wrap(fs afero.Fs) afero.Fs {
	if s.Opts.WrapFs != nil {
		return s.Opts.WrapFs(fs)
	}
	if _, ok := fs.(*afero.MemMapFs); ok {
		// afero's MemMapFs can be driven into a state in which a directory lists itself;
		// afero.Walk then recurses until the Go runtime kills the process. The guard turns
		// that into an ordinary error so that the harness survives and reports it.
		if s.guard == nil {
			s.guard = &guardFs{}
		}
		return &guardedFs{Fs: fs, g: s.guard}
	}
	return fs
}

// guardFs counts directory opens per request.
type guardFs struct{ n, tripped int64 }

type guardedFs struct {
	afero.Fs
	g *guardFs
}

const guardLimit = 200000

var errGuard = fmt.Errorf("verif guard: runaway file system recursion (more than %d opens in one request)", guardLimit)

func (f *guardedFs) Open(name string) (afero.File, error) {
	if atomic.AddInt64(&f.g.n, 1) > guardLimit {
		atomic.StoreInt64(&f.g.tripped, 1)
		return nil, errGuard
	}
	return f.Fs.Open(name)
}

// GuardReset is called by executors before each request.
func (s *Stack) GuardReset() {
	if s.guard != nil {
		atomic.StoreInt64(&s.guard.n, 0)
	}
}

// GuardTripped reports (and clears) whether the recursion guard fired.
func (s *Stack) GuardTripped() bool {
	if s.guard == nil {
		return false
	}
	return atomic.SwapInt64(&s.guard.tripped, 0) == 1
}

func (s *Stack) open() error {
	var be gofakes3.Backend
	switch s.Kind {
	case Mem:
		be = s3mem.New(s3mem.WithTimeSource(s.Clock), s3mem.WithVersionSeed(42))
	case MemStream:
		n := s.Opts.StreamBuf
		if n <= 0 {
			n = 32 * 1024
		}
		be = &streamBackend{Backend: s3mem.New(s3mem.WithTimeSource(s.Clock), s3mem.WithVersionSeed(42)), buf: n}
	case Bolt:
		db, err := bolt.Open(filepath.Join(s.dir, "s3.db"), 0600, &bolt.Options{NoSync: !s.Opts.BoltSync, Timeout: 5 * time.Second})
		if err != nil {
			return err
		}
		db.NoSync = !s.Opts.BoltSync
		s.boltDB = db
		be = s3bolt.New(db, s3bolt.WithTimeSource(s.Clock))
	case MultiMem:
		b, err := s3afero.MultiBucket(s.wrap(s.memFs))
		if err != nil {
			return err
		}
		be = b
	case MultiDir:
		root := filepath.Join(s.dir, "root")
		if err := os.MkdirAll(root, 0700); err != nil {
			return err
		}
		b, err := s3afero.MultiBucket(s.wrap(afero.NewBasePathFs(afero.NewOsFs(), root)))
		if err != nil {
			return err
		}
		be = b
	case SingleMem:
		b, err := s3afero.SingleBucket(SingleBucketName, s.wrap(s.memFs), s.wrap(s.memMeta))
		if err != nil {
			return err
		}
		be = b
	case SingleDir:
		root := filepath.Join(s.dir, "bucket")
		meta := filepath.Join(s.dir, "meta")
		if err := os.MkdirAll(root, 0700); err != nil {
			return err
		}
		if err := os.MkdirAll(meta, 0700); err != nil {
			return err
		}
		b, err := s3afero.SingleBucket(SingleBucketName,
			s.wrap(afero.NewBasePathFs(afero.NewOsFs(), root)),
			s.wrap(afero.NewBasePathFs(afero.NewOsFs(), meta)))
		if err != nil {
			return err
		}
		be = b
	default:
		return fmt.Errorf("unknown kind %q", s.Kind)
	}
	if s.Opts.PutHook != nil {
		hb := &hookBackend{Backend: be, hook: s.Opts.PutHook}
		if vb, ok := be.(gofakes3.VersionedBackend); ok {
			be = &hookVersioned{hookBackend: hb, VersionedBackend: vb}
		} else {
			be = hb
		}
	}
	s.Backend = be
	o := s.Opts
	opts := []gofakes3.Option{
		gofakes3.WithTimeSource(s.Clock),
		gofakes3.WithAutoBucket(o.AutoBucket),
		gofakes3.WithIntegrityCheck(!o.IntegrityOff),
		gofakes3.WithRequestID(0),
	}
	if !o.TimeSkew {
		opts = append(opts, gofakes3.WithTimeSkewLimit(0))
	}
	if o.HostBucket {
		opts = append(opts, gofakes3.WithHostBucket(true))
	}
	if len(o.HostBases) > 0 {
		opts = append(opts, gofakes3.WithHostBucketBase(o.HostBases...))
	}
	if o.NoVersioning {
		opts = append(opts, gofakes3.WithoutVersioning())
	}
	if o.UnimplPageError {
		opts = append(opts, gofakes3.WithUnimplementedPageError())
	}
	if o.MetaLimit != 0 {
		opts = append(opts, gofakes3.WithMetadataSizeLimit(o.MetaLimit))
	}
	s.Faker = gofakes3.New(be, opts...)
	s.Handler = s.Faker.Server()
	if s.guard != nil {
		// the recursion guard counts opens per request
		inner, g := s.Handler, s.guard
		s.Handler = http.HandlerFunc(func(w http.ResponseWriter, r *http.Request) {
			atomic.StoreInt64(&g.n, 0)
			inner.ServeHTTP(w, r)
		})
	}
	return nil
}

// RawPut writes an object file behind the server's back (fs kinds only): the way a directory
// that already holds files is served by the fs backends, or a file changed by another tool.
// No metadata file is written.
func (s *Stack) RawPut(bucket, key string, data []byte) error {
	var fs afero.Fs
	var p string
	switch s.Kind {
	case MultiMem:
		fs, p = s.memFs, filepath.Join("buckets", bucket, filepath.FromSlash(key))
	case SingleMem:
		fs, p = s.memFs, filepath.FromSlash(key)
	case MultiDir:
		fs, p = afero.NewOsFs(), filepath.Join(s.dir, "root", "buckets", bucket, filepath.FromSlash(key))
	case SingleDir:
		fs, p = afero.NewOsFs(), filepath.Join(s.dir, "bucket", filepath.FromSlash(key))
	default:
		return fmt.Errorf("RawPut: %s is not a file-system backend", s.Kind)
	}
	if err := fs.MkdirAll(filepath.Dir(p), 0700); err != nil {
		return err
	}
	return afero.WriteFile(fs, p, data, 0600)
}

// Dir returns the scratch directory ("" if none).
func (s *Stack) Dir() string { return s.dir }

// Reopen closes the backend and opens a fresh one on the same storage.
func (s *Stack) Reopen() error {
	if s.boltDB != nil {
		if err := s.boltDB.Close(); err != nil {
			return err
		}
		s.boltDB = nil
	}
	return s.open()
}

func (s *Stack) Close() {
	if s.boltDB != nil {
		// bolt's Close waits for open transactions: after a request that deadlocked inside one
		// (reported by the check that saw it) it would wait forever
		db := s.boltDB
		done := make(chan struct{})
		go func() { db.Close(); close(done) }()
		select {
		case <-done:
		case <-time.After(10 * time.Second):
		}
		s.boltDB = nil
	}
	if s.dir != "" {
		os.RemoveAll(s.dir)
		s.dir = ""
	}
}

// Tick advances the fixed clock (between operations only).
func (s *Stack) Tick() { s.Clock.Advance(time.Second) }

// streamBackend consumes PutObject's reader with a fixed-size buffer (like io.Copy does).
type streamBackend struct {
	*s3mem.Backend
	buf int
}

func (b *streamBackend) PutObject(bucket, key string, meta map[string]string, input io.Reader, size int64) (gofakes3.PutObjectResult, error) {
	var acc bytes.Buffer
	p := make([]byte, b.buf)
	for {
		n, err := input.Read(p)
		acc.Write(p[:n])
		if err == io.EOF {
			break
		}
		if err != nil {
			return gofakes3.PutObjectResult{}, err
		}
	}
	if int64(acc.Len()) != size {
		return gofakes3.PutObjectResult{}, gofakes3.ErrIncompleteBody
	}
	return b.Backend.PutObject(bucket, key, meta, bytes.NewReader(acc.Bytes()), size)
}

func (b *streamBackend) CopyObject(srcBucket, srcKey, dstBucket, dstKey string, meta map[string]string) (gofakes3.CopyObjectResult, error) {
	return gofakes3.CopyObject(b, srcBucket, srcKey, dstBucket, dstKey, meta)
}

// hookBackend calls a hook before PutObject reaches the wrapped backend.
type hookBackend struct {
	gofakes3.Backend
	hook func(bucket, key string)
}

func (h *hookBackend) PutObject(bucket, key string, meta map[string]string, input io.Reader, size int64) (gofakes3.PutObjectResult, error) {
	h.hook(bucket, key)
	return h.Backend.PutObject(bucket, key, meta, input, size)
}

type hookVersioned struct {
	*hookBackend
	gofakes3.VersionedBackend
}

// hookedClock reports every reading of the clock to the harness.
type hookedClock struct {
	gofakes3.TimeSourceAdvancer
	hook func()
}

func (c *hookedClock) Now() time.Time {
	c.hook()
	return c.TimeSourceAdvancer.Now()
}

// BoltFile is the path of the stack's bolt database ("" for the other kinds).
func (s *Stack) BoltFile() string {
	if s.Kind != Bolt {
		return ""
	}
	return filepath.Join(s.dir, "s3.db")
}

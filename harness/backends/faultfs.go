package backends

import (
	"os"
	"sync/atomic"
	"time"

	"github.com/spf13/afero"
)

// FaultCtl numbers the mutating file-system calls made through a FaultFs and
// "kills the process" before a chosen one: the call panics with Killed and so
// does every later call (a dead process issues no further system calls), while
// everything completed before stays in the underlying file system — the
// kill -9 model.
type FaultCtl struct {
	count  int64
	killAt int64 // kill before the (killAt+1)-th mutating call; < 0 = never
	dead   int32
	Trace  []string
	trace  bool
}

type Killed struct{}

func (Killed) Error() string { return "verif: process killed (fault injection)" }

func NewFaultCtl() *FaultCtl { return &FaultCtl{killAt: -1} }

func (c *FaultCtl) Count() int64 { return atomic.LoadInt64(&c.count) }
func (c *FaultCtl) Dead() bool   { return atomic.LoadInt32(&c.dead) == 1 }

// Arm makes the n-th mutating call from now on (0-based) the fatal one.
func (c *FaultCtl) Arm(n int64) { atomic.StoreInt64(&c.killAt, c.Count()+n) }

// Disarm revives the "process" (used for the restart) and stops killing.
func (c *FaultCtl) Disarm() {
	atomic.StoreInt64(&c.killAt, -1)
	atomic.StoreInt32(&c.dead, 0)
}

func (c *FaultCtl) SetTrace(on bool) { c.trace = on; c.Trace = nil }

func (c *FaultCtl) step(what string) {
	if c.Dead() {
		panic(Killed{})
	}
	k := atomic.LoadInt64(&c.killAt)
	n := atomic.AddInt64(&c.count, 1)
	if k >= 0 && n > k {
		atomic.StoreInt32(&c.dead, 1)
		panic(Killed{})
	}
	if c.trace {
		c.Trace = append(c.Trace, what)
	}
}

func (c *FaultCtl) read() {
	if c.Dead() {
		panic(Killed{})
	}
}

// Wrap returns fs seen through the fault controller.
func (c *FaultCtl) Wrap(fs afero.Fs) afero.Fs { return &faultFs{Fs: fs, c: c} }

type faultFs struct {
	afero.Fs
	c *FaultCtl
}

func (f *faultFs) Create(name string) (afero.File, error) {
	f.c.step("create " + name)
	fl, err := f.Fs.Create(name)
	if err != nil {
		return nil, err
	}
	return &faultFile{File: fl, c: f.c, name: name}, nil
}

func (f *faultFs) OpenFile(name string, flag int, perm os.FileMode) (afero.File, error) {
	if flag&(os.O_WRONLY|os.O_RDWR|os.O_CREATE|os.O_TRUNC|os.O_APPEND) != 0 {
		f.c.step("openfile " + name)
	} else {
		f.c.read()
	}
	fl, err := f.Fs.OpenFile(name, flag, perm)
	if err != nil {
		return nil, err
	}
	return &faultFile{File: fl, c: f.c, name: name}, nil
}

func (f *faultFs) Open(name string) (afero.File, error) {
	f.c.read()
	fl, err := f.Fs.Open(name)
	if err != nil {
		return nil, err
	}
	return &faultFile{File: fl, c: f.c, name: name}, nil
}

func (f *faultFs) Stat(name string) (os.FileInfo, error) { f.c.read(); return f.Fs.Stat(name) }
func (f *faultFs) Mkdir(name string, perm os.FileMode) error {
	f.c.step("mkdir " + name)
	return f.Fs.Mkdir(name, perm)
}
func (f *faultFs) MkdirAll(name string, perm os.FileMode) error {
	// one call per missing component would be closer to the syscall level; a single step keeps
	// the enumeration small and is sound (a prefix of the components is a state MkdirAll of a
	// shorter path also produces)
	f.c.step("mkdirall " + name)
	return f.Fs.MkdirAll(name, perm)
}
func (f *faultFs) Remove(name string) error { f.c.step("remove " + name); return f.Fs.Remove(name) }
func (f *faultFs) RemoveAll(name string) error {
	f.c.step("removeall " + name)
	return f.Fs.RemoveAll(name)
}
func (f *faultFs) Rename(o, n string) error {
	f.c.step("rename " + o + " -> " + n)
	return f.Fs.Rename(o, n)
}
func (f *faultFs) Chmod(name string, m os.FileMode) error {
	f.c.step("chmod " + name)
	return f.Fs.Chmod(name, m)
}
func (f *faultFs) Chtimes(name string, a, m time.Time) error {
	f.c.step("chtimes " + name)
	return f.Fs.Chtimes(name, a, m)
}

type faultFile struct {
	afero.File
	c    *FaultCtl
	name string
}

// writes are split: a kill can land in the middle of a large write
const faultWriteUnit = 16 * 1024

func (f *faultFile) Write(p []byte) (int, error) {
	total := 0
	for len(p) > 0 {
		n := len(p)
		if n > faultWriteUnit {
			n = faultWriteUnit
		}
		f.c.step("write " + f.name)
		w, err := f.File.Write(p[:n])
		total += w
		if err != nil {
			return total, err
		}
		p = p[n:]
	}
	if total == 0 {
		f.c.read()
	}
	return total, nil
}

func (f *faultFile) WriteString(s string) (int, error) { return f.Write([]byte(s)) }
func (f *faultFile) WriteAt(p []byte, off int64) (int, error) {
	f.c.step("writeat " + f.name)
	return f.File.WriteAt(p, off)
}
func (f *faultFile) Truncate(n int64) error {
	f.c.step("truncate " + f.name)
	return f.File.Truncate(n)
}
func (f *faultFile) Read(p []byte) (int, error) { f.c.read(); return f.File.Read(p) }

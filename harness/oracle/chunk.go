package oracle

import (
	"bytes"
	"fmt"
	"strings"
)

// Sig is a syntactically valid chunk signature (64 hex digits).
var Sig = strings.Repeat("0123456789abcdef", 4)

// ChunkedEncode frames payload as an aws-chunked
// (STREAMING-AWS4-HMAC-SHA256-PAYLOAD) body: the payload is cut into chunks of
// the given sizes (the last size is repeated while payload remains; sizes <= 0
// are skipped), followed by the final zero-length chunk.
func ChunkedEncode(payload []byte, sizes []int) []byte {
	return ChunkedEncodeHex(payload, sizes, false)
}

// ChunkedEncodeHex is ChunkedEncode with the chunk sizes written in upper-case
// hexadecimal digits if upper is set (both cases are hexadecimal numbers).
func ChunkedEncodeHex(payload []byte, sizes []int, upper bool) []byte {
	hexf := "%x"
	if upper {
		hexf = "%X"
	}
	var b bytes.Buffer
	pos := 0
	i := 0
	for pos < len(payload) {
		n := 65536
		if len(sizes) > 0 {
			if i < len(sizes) {
				n = sizes[i]
			} else {
				n = sizes[len(sizes)-1]
			}
		}
		i++
		if n <= 0 {
			n = 1
		}
		if n > len(payload)-pos {
			n = len(payload) - pos
		}
		fmt.Fprintf(&b, hexf+";chunk-signature=%s\r\n", n, Sig)
		b.Write(payload[pos : pos+n])
		b.WriteString("\r\n")
		pos += n
	}
	fmt.Fprintf(&b, "0;chunk-signature=%s\r\n\r\n", Sig)
	return b.Bytes()
}

// ChunkSizes returns the chunk sizes ChunkedEncode actually used.
func ChunkSizes(total int, sizes []int) []int {
	var out []int
	pos, i := 0, 0
	for pos < total {
		n := 65536
		if len(sizes) > 0 {
			if i < len(sizes) {
				n = sizes[i]
			} else {
				n = sizes[len(sizes)-1]
			}
		}
		i++
		if n <= 0 {
			n = 1
		}
		if n > total-pos {
			n = total - pos
		}
		out = append(out, n)
		pos += n
	}
	return out
}

// ChunkedDecode decodes an aws-chunked stream positionally: "<hex>;" then a
// field of 16+64 bytes ("chunk-signature=" + signature) and CRLF, <hex> bytes of
// data, CRLF, …, until a zero-length chunk. payload is the concatenation of
// the chunk payloads found; complete reports that the stream is framed exactly
// like ChunkedEncode does (every literal in place, final zero chunk and
// trailing CRLF present, nothing after it); dataComplete reports that every
// announced data byte was present (the stream may end right after it).
func ChunkedDecode(s []byte) (payload []byte, complete bool, dataComplete bool) {
	pos := 0
	strict := true
	for {
		// hex size
		i := pos
		for i < len(s) && isHex(s[i]) {
			i++
		}
		if i == pos || i >= len(s) || s[i] != ';' || i-pos > 15 {
			return payload, false, pos == len(s) && len(payload) > 0 || (pos == len(s))
		}
		var n int64
		for _, c := range s[pos:i] {
			n = n*16 + int64(hexVal(c))
		}
		hdrEnd := i + 1 + 16 + 64 + 2
		if hdrEnd > len(s) {
			return payload, false, false
		}
		if string(s[i+1:i+17]) != "chunk-signature=" || s[hdrEnd-2] != '\r' || s[hdrEnd-1] != '\n' {
			strict = false
		}
		for _, c := range s[i+17 : hdrEnd-2] {
			if !isHex(c) {
				strict = false
			}
		}
		if n == 0 {
			// final chunk: "\r\n" must follow and end the stream
			rest := s[hdrEnd:]
			return payload, strict && string(rest) == "\r\n", true
		}
		if int64(len(s)-hdrEnd) < n {
			payload = append(payload, s[hdrEnd:]...)
			return payload, false, false
		}
		payload = append(payload, s[hdrEnd:hdrEnd+int(n)]...)
		pos = hdrEnd + int(n)
		if pos == len(s) {
			return payload, false, true
		}
		if pos+2 > len(s) {
			return payload, false, true
		}
		if s[pos] != '\r' || s[pos+1] != '\n' {
			strict = false // positional decoding goes on; the stream is no longer exactly framed
		}
		pos += 2
		if pos == len(s) {
			return payload, false, true
		}
	}
}

func isHex(c byte) bool {
	return (c >= '0' && c <= '9') || (c >= 'a' && c <= 'f') || (c >= 'A' && c <= 'F')
}

func hexVal(c byte) int {
	switch {
	case c >= '0' && c <= '9':
		return int(c - '0')
	case c >= 'a' && c <= 'f':
		return int(c-'a') + 10
	}
	return int(c-'A') + 10
}

// Verdicts of ChunkedStrict.
const (
	ChunkWellFormed  = iota // framed exactly as the format says: the stream carries Payload
	ChunkMalformed          // not an aws-chunked stream (must be rejected)
	ChunkUnspecified        // framing intact, but with something the statement does not judge
)

// ChunkedStrict parses an aws-chunked stream strictly:
//
//	stream = *( size ";chunk-signature=" 64OCTET CRLF data CRLF ) "0;chunk-signature=" 64OCTET CRLF CRLF
//
// with size = 1*15 hexadecimal digits (either case) and len(data) = size. It returns the
// concatenated chunk data and a verdict. Left unspecified (the framing is positionally intact):
// signature bytes that are not hexadecimal digits - CR and LF among them - (the signature is 64
// octets by position and its value is not part of the framing), and bytes after the terminating
// chunk.
func ChunkedStrict(s []byte) (payload []byte, verdict int) {
	pos := 0
	odd := false
	expect := func(lit string) bool {
		if len(s)-pos < len(lit) || string(s[pos:pos+len(lit)]) != lit {
			return false
		}
		pos += len(lit)
		return true
	}
	for {
		i := pos
		for i < len(s) && isHex(s[i]) {
			i++
		}
		if i == pos || i-pos > 15 {
			return payload, ChunkMalformed
		}
		var n int64
		for _, c := range s[pos:i] {
			n = n*16 + int64(hexVal(c))
		}
		pos = i
		if !expect(";chunk-signature=") {
			return payload, ChunkMalformed
		}
		if len(s)-pos < 64 {
			return payload, ChunkMalformed
		}
		for _, c := range s[pos : pos+64] {
			if !isHex(c) {
				// (CR and LF included, alone or as a pair: the 64 octets are taken by position, so the
				// framing around them is intact whatever they are)
				odd = true
			}
		}
		pos += 64
		if !expect("\r\n") {
			return payload, ChunkMalformed
		}
		if n == 0 {
			if !expect("\r\n") {
				return payload, ChunkMalformed
			}
			if pos != len(s) || odd {
				return payload, ChunkUnspecified
			}
			return payload, ChunkWellFormed
		}
		if int64(len(s)-pos) < n {
			return payload, ChunkMalformed
		}
		payload = append(payload, s[pos:pos+int(n)]...)
		pos += int(n)
		if !expect("\r\n") {
			return payload, ChunkMalformed
		}
	}
}

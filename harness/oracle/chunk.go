package oracle

import (
	"bytes"
	"fmt"
	"strings"
)

// Sig is a syntactically valid chunk signature (64 hex digits).
var Sig = strings.Repeat("0123456789abcdef", 4)

// ChunkedEncode frames payload as an aws-chunked
// (STREAMING-AWS4-HMAC-SHA256-PAYLOAD) body: the payload is cut into chunks of
// the given sizes (the last size is repeated while payload remains; sizes <= 0
// are skipped), followed by the final zero-length chunk.
func ChunkedEncode(payload []byte, sizes []int) []byte {
	var b bytes.Buffer
	pos := 0
	i := 0
	for pos < len(payload) {
		n := 65536
		if len(sizes) > 0 {
			if i < len(sizes) {
				n = sizes[i]
			} else {
				n = sizes[len(sizes)-1]
			}
		}
		i++
		if n <= 0 {
			n = 1
		}
		if n > len(payload)-pos {
			n = len(payload) - pos
		}
		fmt.Fprintf(&b, "%x;chunk-signature=%s\r\n", n, Sig)
		b.Write(payload[pos : pos+n])
		b.WriteString("\r\n")
		pos += n
	}
	fmt.Fprintf(&b, "0;chunk-signature=%s\r\n\r\n", Sig)
	return b.Bytes()
}

// ChunkSizes returns the chunk sizes ChunkedEncode actually used.
func ChunkSizes(total int, sizes []int) []int {
	var out []int
	pos, i := 0, 0
	for pos < total {
		n := 65536
		if len(sizes) > 0 {
			if i < len(sizes) {
				n = sizes[i]
			} else {
				n = sizes[len(sizes)-1]
			}
		}
		i++
		if n <= 0 {
			n = 1
		}
		if n > total-pos {
			n = total - pos
		}
		out = append(out, n)
		pos += n
	}
	return out
}

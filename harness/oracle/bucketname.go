package oracle

import "strings"

// NameVerdict: what C17 demands for a bucket name.
type NameVerdict int

const (
	NameInvalid NameVerdict = iota
	NameValid
	NameUnspecified
)

func labelChar(c byte) bool { return (c >= 'a' && c <= 'z') || (c >= '0' && c <= '9') || c == '-' }
func labelEdge(c byte) bool { return (c >= 'a' && c <= 'z') || (c >= '0' && c <= '9') }
func allDigits(s string) bool {
	if s == "" {
		return false
	}
	for i := 0; i < len(s); i++ {
		if s[i] < '0' || s[i] > '9' {
			return false
		}
	}
	return true
}

// BucketName decides a name from the statement of C17: 3..63 characters,
// labels separated by single dots, every label at least three characters of
// [a-z0-9-] beginning and ending with a letter or digit, and not formatted as
// an IP address.
func BucketName(name string) NameVerdict {
	if len(name) < 3 || len(name) > 63 {
		return NameInvalid
	}
	labels := strings.Split(name, ".")
	for _, l := range labels {
		if len(l) < 3 {
			return NameInvalid // also catches empty labels: leading/trailing/double dots
		}
		if !labelEdge(l[0]) || !labelEdge(l[len(l)-1]) {
			return NameInvalid
		}
		for i := 0; i < len(l); i++ {
			if !labelChar(l[i]) {
				return NameInvalid
			}
		}
	}
	if len(labels) == 4 {
		numeric := true
		ip := true
		for _, l := range labels {
			if !allDigits(l) {
				numeric = false
				break
			}
			// a dotted-quad octet: 0..255 (labels have >= 3 digits here)
			if len(l) != 3 || l > "255" {
				ip = false
			}
			if l[0] == '0' {
				ip = false // leading zeros: whether that still "is formatted as an IP address" is not settled
			}
		}
		if numeric {
			if ip {
				return NameInvalid
			}
			return NameUnspecified
		}
	}
	return NameValid
}

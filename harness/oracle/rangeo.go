// Package oracle holds the independent oracles: they are written from the
// property statements and never call gofakes3's parsing/matching code.
package oracle

import (
	"math/big"
	"strings"
)

// RangeVerdict is the set of outcomes the statement of C11 allows for a
// (size, header) pair.
type RangeVerdict struct {
	// Allow416: answering 416 InvalidRange is allowed.
	Allow416 bool
	// AllowRange: answering with bytes [First, Last] (inclusive) is allowed.
	AllowRange  bool
	First, Last int64
	// Allow501: answering 501 NotImplemented is allowed (multiple ranges only).
	Allow501 bool
	// AllowWhole: ignoring the header and answering with the whole object is
	// allowed (never set for headers that start with "bytes=": the statement
	// demands a range or 416 there).
	AllowWhole bool
	Class      string
}

func isDigits(s string) bool {
	if s == "" {
		return false
	}
	for i := 0; i < len(s); i++ {
		if s[i] < '0' || s[i] > '9' {
			return false
		}
	}
	return true
}

var maxInt64 = new(big.Int).SetInt64(1<<63 - 1)

// Range decides a Range header for an object of the given size, from the
// statement of C11: "returns exactly the bytes of the single requested range
// clipped to the object's end (first-last, first-, -suffix), or answers 416
// when the range is malformed, starts at or beyond the end, or asks for a
// suffix longer than the object".
func Range(size int64, header string) RangeVerdict {
	if header == "" {
		return RangeVerdict{AllowWhole: true, Class: "none"}
	}
	const pfx = "bytes="
	if !strings.HasPrefix(header, pfx) {
		return RangeVerdict{Allow416: true, Class: "malformed-unit"}
	}
	spec := header[len(pfx):]
	if strings.Contains(spec, ",") {
		return RangeVerdict{Allow416: true, Allow501: true, Class: "multi"}
	}
	// Whitespace around the numbers: the statement is silent; allowed set =
	// {416, the range obtained after trimming}.
	trimmed := strings.TrimSpace(spec)
	ws := trimmed != spec
	i := strings.IndexByte(trimmed, '-')
	if i < 0 {
		return RangeVerdict{Allow416: true, Class: "malformed"}
	}
	a, b := trimmed[:i], trimmed[i+1:]
	if strings.TrimSpace(a) != a || strings.TrimSpace(b) != b {
		ws = true
		a, b = strings.TrimSpace(a), strings.TrimSpace(b)
	}
	mal := RangeVerdict{Allow416: true, Class: "malformed"}
	// A leading '+' on a number is not 1*DIGIT, but the statement does not say
	// how lenient "malformed" is: allowed set = {416, the range with the sign dropped}.
	if strings.HasPrefix(a, "+") && isDigits(a[1:]) {
		a, ws = a[1:], true
	}
	if strings.HasPrefix(b, "+") && isDigits(b[1:]) {
		b, ws = b[1:], true
	}
	sz := big.NewInt(size)
	var v RangeVerdict
	switch {
	case a == "" && b == "":
		return mal
	case a == "":
		// suffix form
		if !isDigits(b) {
			return mal
		}
		n, _ := new(big.Int).SetString(b, 10)
		huge := n.Cmp(maxInt64) > 0
		if n.Sign() == 0 || n.Cmp(sz) > 0 || size == 0 {
			// "-0" selects nothing; a suffix longer than the object is 416 by the statement.
			v = RangeVerdict{Allow416: true, Class: "unsat-suffix"}
		} else {
			v = RangeVerdict{AllowRange: true, First: size - n.Int64(), Last: size - 1, Class: "suffix"}
		}
		if huge {
			v.Allow416 = true
		}
	default:
		if !isDigits(a) || (b != "" && !isDigits(b)) {
			return mal
		}
		first, _ := new(big.Int).SetString(a, 10)
		huge := first.Cmp(maxInt64) > 0
		var last *big.Int
		if b != "" {
			last, _ = new(big.Int).SetString(b, 10)
			if last.Cmp(maxInt64) > 0 {
				huge = true
			}
			if last.Cmp(first) < 0 {
				return mal
			}
		}
		if first.Cmp(sz) >= 0 {
			v = RangeVerdict{Allow416: true, Class: "unsat-start"}
		} else {
			l := size - 1
			cls := "open"
			if last != nil {
				cls = "closed"
				if last.Cmp(big.NewInt(size-1)) < 0 {
					l = last.Int64()
				} else if last.Cmp(big.NewInt(size-1)) > 0 {
					cls = "clipped"
				}
			}
			v = RangeVerdict{AllowRange: true, First: first.Int64(), Last: l, Class: cls}
		}
		if huge {
			v.Allow416 = true
		}
	}
	if ws {
		v.Allow416 = true
		v.Class += "+ws"
	}
	return v
}

package oracle

import (
	"sort"
	"strings"
)

// Listing is what ListObjects must return for a key set, prefix and delimiter
// (C03): Contents in ascending byte order, each common prefix once.
type Listing struct {
	Contents []string
	Prefixes []string // ascending
}

// List computes the listing from the statement of C03: every live key that
// starts with prefix; with a delimiter, a key whose remainder after the prefix
// contains the delimiter is represented by prefix + remainder up to and
// including the first delimiter.
func List(keys []string, prefix, delim string) Listing {
	var l Listing
	seen := map[string]bool{}
	ks := append([]string(nil), keys...)
	sort.Strings(ks)
	for i, k := range ks {
		if i > 0 && ks[i-1] == k {
			continue
		}
		if !strings.HasPrefix(k, prefix) {
			continue
		}
		rest := k[len(prefix):]
		if delim != "" {
			if j := strings.Index(rest, delim); j >= 0 {
				cp := prefix + rest[:j+len(delim)]
				if !seen[cp] {
					seen[cp] = true
					l.Prefixes = append(l.Prefixes, cp)
				}
				continue
			}
		}
		l.Contents = append(l.Contents, k)
	}
	sort.Strings(l.Prefixes)
	return l
}

// Entries merges contents and common prefixes into the single ascending
// sequence in which a paginated walk must produce them ("c:" / "p:" tagged).
func (l Listing) Entries() []string {
	type e struct{ k, tag string }
	var es []e
	for _, c := range l.Contents {
		es = append(es, e{c, "c:"})
	}
	for _, p := range l.Prefixes {
		es = append(es, e{p, "p:"})
	}
	sort.Slice(es, func(i, j int) bool { return es[i].k < es[j].k })
	out := make([]string, len(es))
	for i, x := range es {
		out[i] = x.tag + x.k
	}
	return out
}

// Package evid collects what a check actually covered, applies the
// known-findings protocol and writes the per-shard result file that bin/check
// merges into /verif/evidence/<id>.json.
package evid

import (
	"bufio"
	"encoding/json"
	"fmt"
	"hash/fnv"
	"os"
	"path/filepath"
	"sort"
	"strconv"
	"strings"
	"sync"
	"time"
)

// Env: VERIF_ROOT (default /verif), VERIF_OUT (shard result path; empty = no
// file), VERIF_TIER (quick|thorough), VERIF_SEED, VERIF_SHARD, VERIF_SHARDS.

func Root() string {
	if r := os.Getenv("VERIF_ROOT"); r != "" {
		return r
	}
	return "/verif"
}

func Tier() string {
	if t := os.Getenv("VERIF_TIER"); t == "thorough" {
		return "thorough"
	}
	return "quick"
}

func Thorough() bool { return Tier() == "thorough" }

func envInt(name string, def int) int {
	if v := os.Getenv(name); v != "" {
		if n, err := strconv.Atoi(v); err == nil {
			return n
		}
	}
	return def
}

func Seed() int   { return envInt("VERIF_SEED", 1) }
func Shard() int  { return envInt("VERIF_SHARD", 0) }
func Shards() int { return envInt("VERIF_SHARDS", 1) }

// Scale returns q in the quick tier and t in the thorough tier.
func Scale(q, t int) int {
	if Thorough() {
		return t
	}
	return q
}

// ---- known findings -------------------------------------------------------------

type Finding struct {
	Status   string // "open" | "fixed"
	Property string
	ID       string
	Commit   string
	Witness  string // path relative to root
	What     string
}

var (
	findingsOnce sync.Once
	findings     []Finding
)

// Findings parses <root>/known_findings.txt. Line formats:
//
//	open: property=C05 id=KF-x witness=findings/KF-x.json :: what fails
//	fixed: property=C11 <commit> id=KF-y witness=findings/KF-y.json :: what failed
func Findings() []Finding {
	findingsOnce.Do(func() {
		f, err := os.Open(filepath.Join(Root(), "known_findings.txt"))
		if err != nil {
			return
		}
		defer f.Close()
		sc := bufio.NewScanner(f)
		sc.Buffer(make([]byte, 1<<20), 1<<20)
		for sc.Scan() {
			line := strings.TrimSpace(sc.Text())
			if line == "" || strings.HasPrefix(line, "#") {
				continue
			}
			var fd Finding
			switch {
			case strings.HasPrefix(line, "open:"):
				fd.Status = "open"
				line = strings.TrimSpace(strings.TrimPrefix(line, "open:"))
			case strings.HasPrefix(line, "fixed:"):
				fd.Status = "fixed"
				line = strings.TrimSpace(strings.TrimPrefix(line, "fixed:"))
			default:
				continue
			}
			head, what, _ := strings.Cut(line, "::")
			fd.What = strings.TrimSpace(what)
			for _, tok := range strings.Fields(head) {
				switch {
				case strings.HasPrefix(tok, "property="):
					fd.Property = strings.TrimPrefix(tok, "property=")
				case strings.HasPrefix(tok, "id="):
					fd.ID = strings.TrimPrefix(tok, "id=")
				case strings.HasPrefix(tok, "witness="):
					fd.Witness = strings.TrimPrefix(tok, "witness=")
				default:
					if fd.Status == "fixed" && fd.Commit == "" {
						fd.Commit = tok
					}
				}
			}
			findings = append(findings, fd)
		}
	})
	return findings
}

// Open reports whether the finding id is listed as open.
func Open(id string) bool {
	for _, f := range Findings() {
		if f.ID == id && f.Status == "open" {
			return true
		}
	}
	return false
}

// Disc is one discrepancy between the implementation and an oracle.
type Disc struct {
	Kind   string `json:"kind"`
	Detail string `json:"detail"`
	// KF is the id of the known finding whose signature this discrepancy
	// matches ("" = none). It only suppresses while that id is listed open.
	KF string `json:"kf,omitempty"`
}

func (d Disc) String() string { return d.Kind + ": " + d.Detail }

// D builds a one-element discrepancy list.
func D(kind, format string, a ...interface{}) []Disc {
	return []Disc{{Kind: kind, Detail: fmt.Sprintf(format, a...)}}
}

// ---- collector ------------------------------------------------------------------

type Violation struct {
	Check   string      `json:"check"`
	Kind    string      `json:"kind"`
	Detail  string      `json:"detail"`
	Case    interface{} `json:"case"`
	Replay  string      `json:"replay,omitempty"`
	size    int
	written bool
}

type Collector struct {
	mu        sync.Mutex
	Property  string
	Level     string
	Rule      string
	start     time.Time
	evals     int64
	nontriv   map[uint64]struct{}
	labels    map[string]int64
	samples   []interface{}
	sampleCap int
	excluded  map[string]int64
	known     map[string]string // id -> what (witness still reproduces)
	knownGone []string
	viol      map[string]*Violation // by check+kind (smallest case wins)
	extra     map[string]interface{}
	assume    []string
	inconcl   []string
	exhaust   *bool
	fuzzExecs int64
}

func New(property, level, rule string) *Collector {
	return &Collector{Property: property, Level: level, Rule: rule, start: time.Now(),
		nontriv: map[uint64]struct{}{}, labels: map[string]int64{}, sampleCap: 12,
		excluded: map[string]int64{}, known: map[string]string{}, viol: map[string]*Violation{},
		extra: map[string]interface{}{}}
}

func FP(parts ...string) uint64 {
	h := fnv.New64a()
	for _, p := range parts {
		h.Write([]byte(p))
		h.Write([]byte{0})
	}
	return h.Sum64()
}

// Case records one executed case. fp identifies the case (distinctness);
// sample is kept for the first few cases and thinly afterwards.
func (c *Collector) Case(fp uint64, nontrivial bool, sample func() interface{}, labels ...string) {
	c.mu.Lock()
	defer c.mu.Unlock()
	c.evals++
	if nontrivial {
		c.nontriv[fp] = struct{}{}
	}
	for _, l := range labels {
		c.labels[l]++
	}
	if sample != nil {
		if len(c.samples) < 4 || (nontrivial && len(c.samples) < c.sampleCap && c.evals%97 == 0) {
			c.samples = append(c.samples, sample())
		}
	}
}

func (c *Collector) Label(l string, n int64) {
	c.mu.Lock()
	c.labels[l] += n
	c.mu.Unlock()
}

func (c *Collector) Set(key string, v interface{}) {
	c.mu.Lock()
	c.extra[key] = v
	c.mu.Unlock()
}

func (c *Collector) Assume(s string) {
	c.mu.Lock()
	c.assume = append(c.assume, s)
	c.mu.Unlock()
}

func (c *Collector) Exhaustive(b bool) {
	c.mu.Lock()
	if c.exhaust == nil || !b {
		c.exhaust = &b
	}
	c.mu.Unlock()
}

func (c *Collector) FuzzExecs(n int64) {
	c.mu.Lock()
	c.fuzzExecs += n
	c.mu.Unlock()
}

// Excluded counts a case cut short / carved out because of an open finding.
func (c *Collector) Excluded(id string) {
	c.mu.Lock()
	c.excluded[id]++
	c.mu.Unlock()
}

// KnownReproduced records that the witness of an open finding still fails.
func (c *Collector) KnownReproduced(id, what string) {
	c.mu.Lock()
	c.known[id] = what
	c.mu.Unlock()
}

func (c *Collector) KnownGone(id string) {
	c.mu.Lock()
	c.knownGone = append(c.knownGone, id)
	c.mu.Unlock()
}

// Unjudged records that one generated case could not be judged within its budget (a schedule that
// did not come about, a linearizability search that ran out of time): it is counted and a sample
// is kept in the evidence, but it says nothing about the property either way and does not make
// the check inconclusive - the other cases decide.
func (c *Collector) Unjudged(why string) {
	c.mu.Lock()
	n, _ := c.extra["unjudged_cases"].(int)
	c.extra["unjudged_cases"] = n + 1
	if n < 3 {
		c.extra[fmt.Sprintf("unjudged_example_%d", n+1)] = why
	}
	c.mu.Unlock()
}

func (c *Collector) Inconclusive(why string) {
	c.mu.Lock()
	c.inconcl = append(c.inconcl, why)
	c.mu.Unlock()
}

// Violate records a violation; for one (check, kind) the smallest case is kept
// (so after rapid's shrinking the minimal reproduction is the one written).
func (c *Collector) Violate(check, kind, detail string, cs interface{}) {
	b, _ := json.Marshal(cs)
	c.mu.Lock()
	defer c.mu.Unlock()
	key := check + "/" + kind
	if v, ok := c.viol[key]; ok && v.size <= len(b) {
		return
	}
	c.viol[key] = &Violation{Check: check, Kind: kind, Detail: detail, Case: cs, size: len(b)}
}

func (c *Collector) Violations() int {
	c.mu.Lock()
	defer c.mu.Unlock()
	return len(c.viol)
}

type shardResult struct {
	Property     string                 `json:"property_id"`
	Tier         string                 `json:"tier"`
	Seed         int                    `json:"seed"`
	Shard        int                    `json:"shard"`
	Level        string                 `json:"level"`
	Rule         string                 `json:"rule"`
	Evaluations  int64                  `json:"evaluations"`
	Distinct     int                    `json:"distinct_nontrivial"`
	Labels       map[string]int64       `json:"labels"`
	Samples      []interface{}          `json:"samples"`
	Excluded     map[string]int64       `json:"excluded_known"`
	Known        map[string]string      `json:"known_reproduced"`
	KnownGone    []string               `json:"known_no_longer_reproduces"`
	Violations   []*Violation           `json:"violations"`
	Extra        map[string]interface{} `json:"extra"`
	Assumptions  []string               `json:"assumptions"`
	Inconclusive []string               `json:"inconclusive"`
	Exhaustive   *bool                  `json:"exhaustive,omitempty"`
	FuzzExecs    int64                  `json:"fuzz_execs,omitempty"`
	WallS        float64                `json:"wall_s"`
	FPFile       string                 `json:"fp_file"`
}

// Finish writes replays for violations, prints the protocol lines and writes
// the shard result. It returns the number of violations.
func (c *Collector) Finish() int {
	c.mu.Lock()
	defer c.mu.Unlock()
	root := Root()
	var viols []*Violation
	keys := make([]string, 0, len(c.viol))
	for k := range c.viol {
		keys = append(keys, k)
	}
	sort.Strings(keys)
	for _, k := range keys {
		v := c.viol[k]
		rep := map[string]interface{}{"property": c.Property, "check": v.Check, "kind": v.Kind,
			"detail": v.Detail, "case": v.Case, "seed": Seed(), "tier": Tier()}
		b, _ := json.MarshalIndent(rep, "", " ")
		name := fmt.Sprintf("%s-%s-%016x.json", c.Property, sanitize(v.Check+"-"+v.Kind), FP(string(b)))
		dir := filepath.Join(root, "replays")
		os.MkdirAll(dir, 0755)
		p := filepath.Join(dir, name)
		if err := os.WriteFile(p, b, 0644); err == nil {
			v.Replay = p
		}
		fmt.Printf("VIOLATION property=%s replay=%s\n", c.Property, p)
		fmt.Printf("  detail: check=%s kind=%s %s\n", v.Check, v.Kind, oneLine(v.Detail, 600))
		viols = append(viols, v)
	}
	ids := make([]string, 0, len(c.known))
	for id := range c.known {
		ids = append(ids, id)
	}
	sort.Strings(ids)
	for _, id := range ids {
		fmt.Printf("KNOWN-FINDING: property=%s %s %s\n", c.Property, id, oneLine(c.known[id], 400))
	}
	for _, w := range c.inconcl {
		fmt.Printf("INCONCLUSIVE property=%s %s\n", c.Property, oneLine(w, 400))
	}
	out := os.Getenv("VERIF_OUT")
	if out != "" {
		fps := make([]uint64, 0, len(c.nontriv))
		for fp := range c.nontriv {
			fps = append(fps, fp)
		}
		sort.Slice(fps, func(i, j int) bool { return fps[i] < fps[j] })
		fpFile := out + ".fp"
		if f, err := os.Create(fpFile); err == nil {
			w := bufio.NewWriter(f)
			for _, fp := range fps {
				fmt.Fprintf(w, "%016x\n", fp)
			}
			w.Flush()
			f.Close()
		}
		res := shardResult{Property: c.Property, Tier: Tier(), Seed: Seed(), Shard: Shard(), Level: c.Level,
			Rule: c.Rule, Evaluations: c.evals, Distinct: len(c.nontriv), Labels: c.labels, Samples: c.samples,
			Excluded: c.excluded, Known: c.known, KnownGone: c.knownGone, Violations: viols, Extra: c.extra,
			Assumptions: c.assume, Inconclusive: c.inconcl, Exhaustive: c.exhaust, FuzzExecs: c.fuzzExecs,
			WallS: time.Since(c.start).Seconds(), FPFile: fpFile}
		b, _ := json.Marshal(res)
		os.WriteFile(out, b, 0644)
	}
	return len(viols)
}

func sanitize(s string) string {
	var sb strings.Builder
	for _, r := range s {
		if (r >= 'a' && r <= 'z') || (r >= 'A' && r <= 'Z') || (r >= '0' && r <= '9') || r == '-' || r == '_' {
			sb.WriteRune(r)
		} else {
			sb.WriteByte('_')
		}
	}
	return sb.String()
}

func oneLine(s string, max int) string {
	s = strings.ReplaceAll(s, "\n", " | ")
	if len(s) > max {
		s = s[:max] + "…"
	}
	return s
}

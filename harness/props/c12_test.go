//go:build verif

package props

import (
	"bytes"
	"crypto/md5"
	"encoding/base64"
	"encoding/json"
	"fmt"
	"strings"
	"testing"

	"verif/harness/backends"
	"verif/harness/evid"
	"verif/harness/oracle"
	"verif/harness/s3x"

	"pgregory.net/rapid"
)

// C12 — aws-chunked streaming uploads decode to the payload however they arrive.

type c12Case struct {
	Backend   backends.Kind `json:"backend"`
	StreamBuf int           `json:"streamBuf,omitempty"`
	Payload   bodySpec      `json:"payload"`
	Chunks    []int         `json:"chunks"`
	Frag      s3x.Frag      `json:"frag"`
	// Mutation of the well-formed stream ("" = none)
	Mut  string `json:"mut,omitempty"`
	MutK int    `json:"mutK,omitempty"`
	// Declared decoded length: nil = correct
	Declared *string `json:"declared,omitempty"`
	Prior    bool    `json:"prior,omitempty"`    // the key already holds an object
	HexUpper bool    `json:"hexUpper,omitempty"` // chunk sizes in upper-case hexadecimal digits
	ViaPart  bool    `json:"viaPart,omitempty"`  // the stream is part 1 of a multipart upload, which is then completed
	MD5      bool    `json:"md5,omitempty"`      // the request carries the Content-MD5 of the payload the stream decodes to
	// BigMeta > 0: the upload carries that many bytes of user metadata, around the server's limit for
	// stored headers: the upload may be refused for it (MetadataTooLarge, nothing stored); if it is
	// accepted, what is stored is the payload
	BigMeta int `json:"bigMeta,omitempty"`
}

var c12Prior = []byte("object stored before the streaming upload")

// c12PriorPart: an earlier, acknowledged upload of the part number a ViaPart case sends again
// (longer than the grid's re-uploads, so that its storage could be reused for them)
var c12PriorPart = bytes.Repeat([]byte("earlier part 1 / "), 6000)

// c12Mutate damages a well-formed stream; it returns the stream and whether the
// result is certainly malformed (false = it may still be a valid stream).
func c12Mutate(stream []byte, payload []byte, mut string, k int) ([]byte, bool) {
	s := append([]byte(nil), stream...)
	if len(s) == 0 {
		return s, false
	}
	first := bytes.Index(s, []byte("\r\n")) // end of the first chunk header
	switch mut {
	case "":
		return s, false
	case "truncate":
		cut := k % len(s)
		return s[:cut], true
	case "bad-hex":
		s[0] = 'g'
		return s, true
	case "no-signature":
		i := bytes.Index(s, []byte(";chunk-signature="))
		return append(s[:i:i], s[i+len(";chunk-signature=")+64:]...), true
	case "short-signature":
		i := bytes.Index(s, []byte(";chunk-signature=")) + len(";chunk-signature=")
		return append(s[:i+10:i+10], s[i+64:]...), true
	case "missing-crlf-after-header":
		return append(s[:first:first], s[first+2:]...), true
	case "missing-crlf-after-data":
		// remove the CRLF that follows the first chunk's data
		sizes := 0
		fmt.Sscanf(string(s), "%x;", &sizes)
		at := first + 2 + sizes
		if sizes == 0 || at+2 > len(s) {
			return s, false
		}
		return append(s[:at:at], s[at+2:]...), true
	case "cut-after-data", "cut-after-data-crlf":
		// the body ends exactly after the first chunk's data (or after the CRLF that follows it): a
		// transport hands those last bytes to the reader together with the end of the body
		sizes := 0
		fmt.Sscanf(string(s), "%x;", &sizes)
		at := first + 2 + sizes
		if mut == "cut-after-data-crlf" {
			at += 2
		}
		if sizes == 0 || at > len(s) {
			return s, false
		}
		return s[:at], true
	case "signed-size", "blank-before-size", "signed-zero-terminator":
		// a size field that is not just hexadecimal digits (a number parser may be more generous)
		switch mut {
		case "signed-size":
			return append([]byte("+"), s...), true
		case "blank-before-size":
			return append([]byte(" "), s...), true
		default:
			i := bytes.LastIndex(s, []byte("0;chunk-signature="))
			if i < 0 {
				return s, false
			}
			return append(append(append([]byte(nil), s[:i]...), '-'), s[i:]...), true
		}
	case "trailer-lines":
		// header-like lines between the terminating chunk's header and the empty line that ends
		// the body: the framing of another payload type (…-PAYLOAD-TRAILER), not of this one
		i := bytes.LastIndex(s, []byte("0;chunk-signature="))
		if i < 0 || !bytes.HasSuffix(s, []byte("\r\n\r\n")) {
			return s, false
		}
		lines := []string{"x-amz-checksum-crc32:AAAAAA==\r\n", "x-amz-checksum-sha256:47DEQpj8HBSa+/TImW+5JCeuQeRkm5NMpJWZG3hSuFU=\r\nx-amz-trailer-signature:" + oracle.Sig + "\r\n", "X-Amz-Meta-Late:1\r\n"}[k%3]
		return append(append(append([]byte(nil), s[:len(s)-2]...), lines...), '\r', '\n'), true
	case "chunk-longer-than-data":
		// announce a first chunk that is longer than everything that follows
		rest := s[bytes.IndexByte(s, ';'):]
		return append([]byte(fmt.Sprintf("%x", len(s)+1000)), rest...), true
	case "trailing-garbage":
		return append(s, []byte("GARBAGE AFTER THE FINAL CHUNK")...), false // the statement does not say trailing bytes make a stream malformed
	case "no-final-chunk":
		i := bytes.LastIndex(s, []byte("0;chunk-signature="))
		return s[:i], false // all declared bytes arrive; accepted with the exact payload is inside the allowed set
	case "flip":
		i := k % len(s)
		s[i] ^= 0x20
		return s, false
	}
	return s, false
}

var c12Muts = []string{"trailer-lines", "signed-size", "blank-before-size", "signed-zero-terminator", "cut-after-data", "cut-after-data-crlf", "truncate", "bad-hex", "no-signature", "short-signature", "missing-crlf-after-header", "missing-crlf-after-data", "chunk-longer-than-data", "trailing-garbage", "no-final-chunk", "flip"}

func c12Check(cs c12Case) (ds []disc) {
	st := backends.Must(cs.Backend, backends.Options{StreamBuf: cs.StreamBuf})
	defer st.Close()
	if err := ensureBucket(st, "bk0"); err != nil {
		panic(err)
	}
	payload := cs.Payload.bytes()
	fail := func(kind, f string, a ...interface{}) {
		ds = append(ds, disc{Kind: kind, Detail: fmt.Sprintf("backend=%s/%d payload=%d chunks=%v frag=%+v mut=%s/%d declared=%v prior=%v: ", cs.Backend, cs.StreamBuf, len(payload), trunc([]byte(fmt.Sprint(cs.Chunks)), 60), cs.Frag, cs.Mut, cs.MutK, strOrNil(cs.Declared), cs.Prior) + fmt.Sprintf("viaPart=%v md5=%v bigMeta=%d: ", cs.ViaPart, cs.MD5, cs.BigMeta) + fmt.Sprintf(f, a...)})
	}
	key := "streamed/object"
	if cs.Prior {
		if r := put(st, "bk0", key, c12Prior, "X-Amz-Meta-Prior", "yes"); r.Status != 200 {
			panic("harness: " + r.String())
		}
	}
	stream := oracle.ChunkedEncodeHex(payload, cs.Chunks, cs.HexUpper)
	stream, _ = c12Mutate(stream, payload, cs.Mut, cs.MutK)
	// what the stream that is actually sent says, by an independent strict parser: well-formed
	// (carrying dec), malformed (must be refused), or framed intact with something the statement
	// does not judge (odd signature bytes, bytes after the terminating chunk)
	dec, verdict := oracle.ChunkedStrict(stream)
	malformed := verdict == oracle.ChunkMalformed
	if !malformed {
		payload = dec
	}
	declared := fmt.Sprint(len(cs.Payload.bytes()))
	if cs.Declared != nil {
		declared = *cs.Declared
	}
	// net/http strips optional whitespace around header values
	mismatch := strings.Trim(declared, " \t") != fmt.Sprint(len(payload))
	rq := &s3x.Req{Method: "PUT", Path: "/bk0/" + key, Body: stream, Frag: cs.Frag,
		Header: s3x.H("X-Amz-Content-Sha256", "STREAMING-AWS4-HMAC-SHA256-PAYLOAD", "X-Amz-Decoded-Content-Length", declared, "Content-Encoding", "aws-chunked", "X-Amz-Meta-Streamed", "s")}
	if cs.BigMeta > 0 {
		rq.Header = append(rq.Header, [2]string{"X-Amz-Meta-Pad", strings.Repeat("m", cs.BigMeta)})
	}
	if cs.MD5 {
		// the digest of the decoded payload, as the SDKs send it: it must not make a well-formed
		// stream fail
		sum := md5.Sum(payload)
		rq.Header = append(rq.Header, [2]string{"Content-MD5", base64.StdEncoding.EncodeToString(sum[:])})
	}
	uploadID := ""
	if cs.ViaPart {
		x := s3x.Do(st.Handler, &s3x.Req{Method: "POST", Path: "/bk0/" + key, Query: s3x.Q("uploads", s3x.Bare)})
		var d s3x.InitiateDoc
		if x.Status != 200 || x.XML(&d) != nil {
			panic("harness: initiate: " + x.String())
		}
		uploadID = d.UploadId
		rq.Query = s3x.Q("partNumber", "1", "uploadId", uploadID)
		if cs.Prior {
			// part 1 was uploaded (and acknowledged) before: a rejected re-upload must leave it as it is
			if r := s3x.Do(st.Handler, &s3x.Req{Method: "PUT", Path: "/bk0/" + key, Query: rq.Query, Body: c12PriorPart}); r.Status != 200 {
				panic("harness: prior part: " + r.String())
			}
		}
	}
	r := s3x.Do(st.Handler, rq)
	if r.Panic != "" {
		fail("panic", "%s at %s", r.Panic, r.PanicSite)
		return
	}
	if cs.ViaPart {
		// the pending upload holds the part exactly if the upload was acknowledged
		lp := s3x.Do(st.Handler, &s3x.Req{Method: "GET", Path: "/bk0/" + key, Query: s3x.Q("uploadId", uploadID)})
		var pd s3x.ListPartsDoc
		if lp.Status != 200 || lp.XML(&pd) != nil {
			fail("listparts-failed", "ListParts after the part upload answered %s", lp)
			return
		}
		if cs.Prior && r.Status != 200 {
			// the earlier part 1 must still be there, byte for byte: complete the upload with it
			if len(pd.Parts) != 1 || pd.Parts[0].ETag != etagOf(c12PriorPart) || pd.Parts[0].Size != int64(len(c12PriorPart)) {
				fail("rejected-part-changed-upload", "the re-upload of part 1 was answered %d; the upload now lists %+v, the earlier part 1 has %d bytes and ETag %s", r.Status, pd.Parts, len(c12PriorPart), etagOf(c12PriorPart))
				return
			}
			cb := "<CompleteMultipartUpload><Part><PartNumber>1</PartNumber><ETag>" + xmlEsc(etagOf(c12PriorPart)) + "</ETag></Part></CompleteMultipartUpload>"
			if c := s3x.Do(st.Handler, &s3x.Req{Method: "POST", Path: "/bk0/" + key, Query: s3x.Q("uploadId", uploadID), Body: []byte(cb)}); c.Status != 200 {
				fail("complete-failed", "completing the upload with the earlier part answered %s", c)
				return
			}
			if g := get(st, "bk0", key); g.Status != 200 || !bytes.Equal(g.Body, c12PriorPart) {
				fail("rejected-part-corrupted-stored-part", "the re-upload of part 1 was rejected (%d), but the upload completed with the earlier part's ETag stores %d bytes (md5 %s) instead of the earlier part (%d bytes, md5 %s)%s", r.Status, len(g.Body), md5hex(g.Body), len(c12PriorPart), md5hex(c12PriorPart), firstDiff(g.Body, c12PriorPart))
			}
			return
		}
		if (r.Status == 200) != (len(pd.Parts) == 1) && !cs.Prior {
			fail("part-bookkeeping", "the part upload answered %d and the upload now holds %d parts", r.Status, len(pd.Parts))
			return
		}
		if r.Status == 200 {
			if pd.Parts[0].ETag != r.Header.Get("ETag") || pd.Parts[0].Size != int64(len(payload)) {
				fail("part-size", "the acknowledged part is listed with size %d ETag %s; the stream carries %d payload bytes, the answer said ETag %s", pd.Parts[0].Size, pd.Parts[0].ETag, len(payload), r.Header.Get("ETag"))
			}
			cb := "<CompleteMultipartUpload><Part><PartNumber>1</PartNumber><ETag>" + xmlEsc(r.Header.Get("ETag")) + "</ETag></Part></CompleteMultipartUpload>"
			if c := s3x.Do(st.Handler, &s3x.Req{Method: "POST", Path: "/bk0/" + key, Query: s3x.Q("uploadId", uploadID), Body: []byte(cb)}); c.Status != 200 {
				fail("complete-failed", "completing the upload of the acknowledged part answered %s", c)
				return
			}
		}
	}
	g := get(st, "bk0", key)
	prevOK := func() bool {
		if cs.Prior {
			return g.Status == 200 && bytes.Equal(g.Body, c12Prior) && g.Header.Get("X-Amz-Meta-Prior") == "yes"
		}
		return g.Status == 404
	}
	wellFormed := verdict == oracle.ChunkWellFormed && !mismatch
	switch {
	case wellFormed:
		if cs.BigMeta > 0 && r.Status == 400 && r.ErrCode() == "MetadataTooLarge" {
			if !cs.ViaPart && !prevOK() {
				fail("rejected-stream-changed-state", "answered %s but the key now reads %d with %d bytes (md5 %s)", r, g.Status, len(g.Body), md5hex(g.Body))
			}
			return
		}
		if r.Status != 200 {
			fail("valid-stream-refused", "a well-formed stream was answered %s", r)
			return
		}
		if et := r.Header.Get("ETag"); et != etagOf(payload) {
			fail("put-etag", "PUT ETag %s want %s", et, etagOf(payload))
		}
		if cs.ViaPart {
			if g.Status != 200 || !bytes.Equal(g.Body, payload) {
				fail("stored-differs", "after completing the upload GET returned %d, %d bytes (md5 %s); the part's payload has %d bytes (md5 %s)%s", g.Status, len(g.Body), md5hex(g.Body), len(payload), md5hex(payload), firstDiff(g.Body, payload))
			}
			return
		}
		if g.Status != 200 || !bytes.Equal(g.Body, payload) {
			fail("stored-differs", "GET returned %d, %d bytes (md5 %s); the payload has %d bytes (md5 %s)%s", g.Status, len(g.Body), md5hex(g.Body), len(payload), md5hex(payload), firstDiff(g.Body, payload))
		} else if g.Header.Get("ETag") != etagOf(payload) {
			fail("get-etag", "GET ETag %s want %s", g.Header.Get("ETag"), etagOf(payload))
		}
	case r.Status >= 400:
		if !prevOK() {
			fail("rejected-stream-changed-state", "answered %s but the key now reads %d with %d bytes (md5 %s)", r, g.Status, len(g.Body), md5hex(g.Body))
		}
	default:
		// accepted although mutated / mismatching: the stored object must be exactly a payload whose
		// length equals the declared decoded length and that is the concatenation of the stream's chunks
		if malformed || mismatch {
			fail("malformed-stream-accepted", "a malformed / length-mismatched stream was answered %d (stored %d bytes)", r.Status, len(g.Body))
			return
		}
		if g.Status != 200 || fmt.Sprint(len(g.Body)) != strings.Trim(declared, " \t") || !bytes.Equal(g.Body, payload) {
			fail("accepted-stream-corrupt", "mutated stream accepted (%d) but the key reads %d with %d bytes (md5 %s), payload has %d bytes (md5 %s)", r.Status, g.Status, len(g.Body), md5hex(g.Body), len(payload), md5hex(payload))
		}
	}
	return
}

func firstDiff(a, b []byte) string {
	n := len(a)
	if len(b) < n {
		n = len(b)
	}
	for i := 0; i < n; i++ {
		if a[i] != b[i] {
			return fmt.Sprintf("; first difference at byte %d", i)
		}
	}
	return fmt.Sprintf("; common prefix %d bytes", n)
}

func strOrNil(s *string) string {
	if s == nil {
		return "correct"
	}
	return *s
}

func c12Replay(check string, raw json.RawMessage) ([]disc, error) {
	var cs c12Case
	if err := json.Unmarshal(raw, &cs); err != nil {
		return nil, err
	}
	return c12Check(cs), nil
}

func TestC12(t *testing.T) {
	runProp(t, propDef{
		ID:    "C12",
		Level: "exploration",
		Rule: "cases = (backend incl. a streaming consumer with buffer sizes 1 B..64 KiB, payload, chunk-size sequence, read fragmentation of the request body, stream mutation, declared decoded length, prior object?); " +
			"payload sizes {0,1,100,32767..32769,65536,100000,(1-3 MiB thorough)}, chunk sizes from 1 byte to larger than the 32 KiB copy buffer and the 64 KiB SDK default, fragmentations whole / one byte / halves / fixed n / drawn split points / data returned together with EOF; " +
			"well-formed => 200 and GET == payload for every fragmentation and backend (with user metadata around the stored-header limit: that, or refused as too large with nothing stored); mutated or length-mismatched => rejected with the previous state intact, or (where still a valid stream) stored exactly; " +
			"non-trivial = >= 2 chunks, or a chunk larger than 32 KiB, or a fragmentation other than whole, or a mutation; distinct by the full case",
		Replay: c12Replay,
		Run:    c12Run,
	})
}

type c12Cfg struct {
	K   backends.Kind
	Buf int
}

func c12Configs() []c12Cfg {
	var out []c12Cfg
	for _, k := range kindsFromEnv(backends.All) {
		out = append(out, c12Cfg{k, 0})
	}
	for _, b := range []int{1, 7, 512, 4096, 32 * 1024, 64 * 1024} {
		out = append(out, c12Cfg{backends.MemStream, b})
	}
	return out
}

func c12Run(t *testing.T, c *evid.Collector) {
	cfgs := c12Configs()
	record := func(cs c12Case, ds []disc, src string) bool {
		n := len(cs.Payload.bytes())
		sizes := oracle.ChunkSizes(n, cs.Chunks)
		big := false
		for _, s := range sizes {
			if s > 32*1024 {
				big = true
			}
		}
		fragd := cs.Frag.Mode != "" && cs.Frag.Mode != "whole"
		nt := len(sizes) >= 2 || big || fragd || cs.Mut != "" || cs.Declared != nil
		labels := []string{"backend:" + string(cs.Backend), "src:" + src}
		if big {
			labels = append(labels, "chunk>32KiB")
		}
		if big && fragd {
			labels = append(labels, "chunk>consumer-buffer-with-short-reads")
		}
		if fragd {
			labels = append(labels, "fragmented")
		}
		if cs.Mut != "" {
			labels = append(labels, "mut:"+cs.Mut)
		}
		if cs.Declared != nil {
			labels = append(labels, "declared-length-mismatch")
		}
		if len(sizes) >= 2 {
			labels = append(labels, "multi-chunk")
		}
		if cs.ViaPart {
			labels = append(labels, "via-part")
		}
		if cs.MD5 {
			labels = append(labels, "content-md5")
		}
		if cs.BigMeta > 0 {
			labels = append(labels, "metadata-around-the-limit")
		}
		c.Case(evid.FP(mustJSON(cs)), nt, func() interface{} { return cs }, labels...)
		return report(c, "stream", ds, cs)
	}
	// ---- fixed grid (ignores the seed)
	payloads := []bodySpec{{}, {Lit: []byte("x")}, {N: 100, Seed: 1}, {N: 32767, Seed: 2}, {N: 32768, Seed: 3}, {N: 32769, Seed: 4}, {N: 65536, Seed: 5}, {N: 100000, Seed: 6}}
	if evid.Thorough() {
		payloads = append(payloads, bodySpec{N: 1 << 20, Seed: 7}, bodySpec{N: 3<<20 + 11, Seed: 8})
	}
	chunkings := [][]int{{65536}, {1}, {7}, {1000, 1, 50000, 3}, {32768}, {32769}, {40000, 9}, {200000}, {8192}}
	frags := []s3x.Frag{{Mode: "whole"}, {Mode: "byte"}, {Mode: "half"}, {Mode: "n", N: 4096}, {Mode: "n", N: 33000}, {Mode: "n", N: 100, EOFWithData: true}, {Mode: "splits", Splits: []int{1, 2, 17, 83, 84, 85, 86, 32000, 32768 + 85, 40000}}}
	i := 0
	for _, cfg := range cfgs {
		for _, p := range payloads {
			for _, ch := range chunkings {
				if p.N > 40000 && ch[0] < 8 {
					continue // 100 kB in 1-byte chunks is 9 MB of framing; covered with smaller payloads
				}
				for _, fr := range frags {
					if fr.Mode == "byte" && p.N > 40000 {
						continue
					}
					i++
					if i%evid.Shards() != evid.Shard() {
						continue
					}
					cs := c12Case{Backend: cfg.K, StreamBuf: cfg.Buf, Payload: p, Chunks: ch, Frag: fr, Prior: i%2 == 0, MD5: i%5 == 0}
					record(cs, c12Check(cs), "grid")
				}
			}
		}
		// the same framing on a part of a multipart upload
		for _, p := range []bodySpec{{Lit: []byte("x")}, {N: 100, Seed: 1}, {N: 70000, Seed: 12}} {
			for _, ch := range [][]int{{65536}, {7}, {1000, 1, 50000, 3}} {
				if p.N > 40000 && ch[0] < 8 {
					continue
				}
				for _, fr := range []s3x.Frag{{Mode: "whole"}, {Mode: "n", N: 4096}} {
					for _, m := range []string{"", "truncate", "no-final-chunk", "missing-crlf-after-data", "cut-after-data", "cut-after-data-crlf", "trailer-lines"} {
						i++
						if i%evid.Shards() != evid.Shard() {
							continue
						}
						cs := c12Case{Backend: cfg.K, StreamBuf: cfg.Buf, Payload: p, Chunks: ch, Frag: fr, Mut: m, MutK: 120, Prior: i%2 == 0, ViaPart: true, MD5: i%3 == 0}
						record(cs, c12Check(cs), "grid-part")
					}
				}
			}
		}
		// user metadata around the server's limit for stored headers, next to the streaming headers
		for _, bm := range []int{1500, 1800, 1850, 1900, 1950, 2000, 2100, 4000} {
			for _, m := range []string{"", "no-final-chunk"} {
				i++
				if i%evid.Shards() != evid.Shard() {
					continue
				}
				cs := c12Case{Backend: cfg.K, StreamBuf: cfg.Buf, Payload: bodySpec{N: 65536, Seed: 13}, Chunks: []int{10000}, Frag: s3x.Frag{Mode: "whole"}, Mut: m, Prior: i%2 == 0, BigMeta: bm}
				record(cs, c12Check(cs), "grid-big-metadata")
			}
		}
		// chunk sizes whose hexadecimal form has letters, written in either case
		for _, ch := range [][]int{{0xab, 0x1c0, 0xf}, {0xabcdef % 70000, 0xfade}, {10, 0xbeef, 0xa}} {
			for _, up := range []bool{false, true} {
				i++
				if i%evid.Shards() != evid.Shard() {
					continue
				}
				cs := c12Case{Backend: cfg.K, StreamBuf: cfg.Buf, Payload: bodySpec{N: 70000, Seed: 10}, Chunks: ch, Frag: s3x.Frag{Mode: "n", N: 700}, Prior: i%2 == 0, HexUpper: up}
				record(cs, c12Check(cs), "grid-hex-case")
			}
		}
		// chunk sizes that need six and seven hex digits (the documented example has five)
		for _, ch := range [][]int{{1 << 20}, {3, 1<<20 + 1, 70000}, {1 << 24}} {
			for _, fr := range []s3x.Frag{{Mode: "whole"}, {Mode: "n", N: 33000}} {
				i++
				if i%evid.Shards() != evid.Shard() {
					continue
				}
				n := 1<<20 + 70010
				if ch[0] == 1<<24 {
					if !evid.Thorough() && cfg.K != backends.Mem {
						continue
					}
					n = 1<<24 + 5
				}
				cs := c12Case{Backend: cfg.K, StreamBuf: cfg.Buf, Payload: bodySpec{N: n, Seed: 9}, Chunks: ch, Frag: fr, Prior: i%2 == 0}
				record(cs, c12Check(cs), "grid-large-chunk")
			}
		}
		// malformed streams and length mismatches
		for _, p := range []bodySpec{{N: 100, Seed: 1}, {N: 40000, Seed: 2}, {}} {
			for _, m := range c12Muts {
				for _, mk := range []int{0, 1, 5, 60, 85, 86, 87, 150, 39990} {
					if m != "truncate" && m != "flip" && mk != 0 {
						continue
					}
					for _, fr := range []s3x.Frag{{Mode: "whole"}, {Mode: "n", N: 13}} {
						for _, prior := range []bool{false, true} {
							i++
							if i%evid.Shards() != evid.Shard() {
								continue
							}
							cs := c12Case{Backend: cfg.K, StreamBuf: cfg.Buf, Payload: p, Chunks: []int{64, 30000}, Frag: fr, Mut: m, MutK: mk, Prior: prior}
							record(cs, c12Check(cs), "malformed")
						}
					}
				}
			}
			for _, d := range []string{"-1", "0", "1", "99", "101", "39999", "40001", "abc", "", "1e2", " 100", "9223372036854775807", "100000000000"} {
				for _, prior := range []bool{false, true} {
					dd := d
					cs := c12Case{Backend: cfg.K, StreamBuf: cfg.Buf, Payload: p, Chunks: []int{64, 30000}, Frag: s3x.Frag{Mode: "n", N: 1000}, Declared: &dd, Prior: prior}
					if dd == fmt.Sprint(len(p.bytes())) {
						cs.Declared = nil
					}
					i++
					if i%evid.Shards() != evid.Shard() {
						continue
					}
					record(cs, c12Check(cs), "declared-length")
				}
			}
		}
	}
	c.Set("grid_cases", i)
	// ---- random
	rapidRun(t, "random", evid.Scale(1200, 25000), func(rt *rapid.T) {
		cfg := rapid.SampledFrom(cfgs).Draw(rt, "config")
		cs := c12Case{Backend: cfg.K, StreamBuf: cfg.Buf, Prior: rapid.Bool().Draw(rt, "prior"), HexUpper: rapid.IntRange(0, 3).Draw(rt, "hexupper") == 0}
		switch rapid.IntRange(0, 4).Draw(rt, "psize") {
		case 0:
			cs.Payload = bodySpec{Lit: rapid.SliceOfN(rapid.Byte(), 0, 40).Draw(rt, "lit")}
		case 1:
			cs.Payload = bodySpec{N: rapid.SampledFrom([]int{32767, 32768, 32769, 65535, 65536, 65537}).Draw(rt, "pn"), Seed: rapid.Uint64Range(0, 99).Draw(rt, "seed")}
		default:
			cs.Payload = bodySpec{N: rapid.IntRange(1, evid.Scale(120000, 2<<20)).Draw(rt, "pn"), Seed: rapid.Uint64Range(0, 99).Draw(rt, "seed")}
		}
		n := len(cs.Payload.bytes())
		nch := rapid.IntRange(1, 5).Draw(rt, "nch")
		for j := 0; j < nch; j++ {
			cs.Chunks = append(cs.Chunks, rapid.OneOf(rapid.IntRange(1, 100), rapid.IntRange(1000, 70000), rapid.SampledFrom([]int{32767, 32768, 32769, 65536})).Draw(rt, "chunk"))
		}
		if n > 50000 && cs.Chunks[len(cs.Chunks)-1] < 500 {
			cs.Chunks = append(cs.Chunks, 20000)
		}
		streamLen := len(oracle.ChunkedEncode(cs.Payload.bytes(), cs.Chunks))
		cs.Frag = genFrag(rt, streamLen)
		switch rapid.IntRange(0, 5).Draw(rt, "mutate") {
		case 0:
			cs.Mut = rapid.SampledFrom(c12Muts).Draw(rt, "mut")
			cs.MutK = rapid.IntRange(0, streamLen+5).Draw(rt, "mutk")
		case 1:
			d := fmt.Sprint(n + rapid.SampledFrom([]int{-1, 1, -n, 7, 100000}).Draw(rt, "delta"))
			cs.Declared = &d
		}
		cs.ViaPart = rapid.IntRange(0, 4).Draw(rt, "viapart") == 0
		if rapid.IntRange(0, 7).Draw(rt, "bigmeta") == 0 {
			cs.BigMeta = rapid.IntRange(1500, 2200).Draw(rt, "bm")
		}
		cs.MD5 = rapid.IntRange(0, 2).Draw(rt, "md5") == 0
		if record(cs, c12Check(cs), "random") {
			rt.Fatalf("C12 violated")
		}
	})
	_ = strings.Join
}

// FuzzC12: arbitrary stream bytes, split seed and declared length.
func FuzzC12(f *testing.F) {
	f.Add(oracle.ChunkedEncode([]byte("hello world"), []int{4}), 3, 11)
	f.Add(oracle.ChunkedEncode(bytes.Repeat([]byte("ab"), 300), []int{100, 7}), 50, 600)
	f.Add([]byte("0;chunk-signature="+oracle.Sig+"\r\n\r\n"), 1, 0)
	f.Add([]byte("ffffffffffffffff;chunk-signature="+oracle.Sig+"\r\nxx\r\n"), 1, 2)
	f.Add([]byte("-1;chunk-signature="+oracle.Sig+"\r\nxx\r\n"), 1, 2)
	// a lone CR among the signature's 64 octets ends no line (found by this target; the strict parser
	// used to call it malformed)
	f.Add([]byte("0;chunk-signature=00000000000000000000000000\r0000000000000000000000000000000000000\r\n\r\n"), 43, 0)
	f.Add([]byte("3;chunk-signature=0000000000000000000000000000000\n00000000000000000000000000000000\r\nabc\r\n0;chunk-signature="+oracle.Sig+"\r\n\r\n"), 5, 3)
	// ... nor does a CRLF pair among them: the signature is 64 octets by position
	f.Add([]byte("4;chunk-signature="+oracle.Sig+"\r\n0000\r\n3;chunk-signature=00000000000000000000000000000000000000000\r\n000000000000000000000\r\n000\r\n0;chunk-signature="+oracle.Sig+"\r\n\r\n"), 3, 7)
	f.Fuzz(func(t *testing.T, stream []byte, frag int, declared int) {
		if len(stream) > 1<<16 || frag <= 0 || declared < -5 || declared > 1<<17 {
			return
		}
		for _, cfg := range []c12Cfg{{backends.Mem, 0}, {backends.MemStream, 7}, {backends.MultiMem, 0}} {
			st := backends.Must(cfg.K, backends.Options{StreamBuf: cfg.Buf})
			ensureBucket(st, "bk0")
			put(st, "bk0", "k", c12Prior)
			rq := &s3x.Req{Method: "PUT", Path: "/bk0/k", Body: stream, Frag: s3x.Frag{Mode: "n", N: frag},
				Header: s3x.H("X-Amz-Content-Sha256", "STREAMING-AWS4-HMAC-SHA256-PAYLOAD", "X-Amz-Decoded-Content-Length", fmt.Sprint(declared))}
			r := s3x.Do(st.Handler, rq)
			g := get(st, "bk0", "k")
			st.Close()
			if r.Panic != "" {
				t.Fatalf("C12: panic %s at %s", r.Panic, r.PanicSite)
			}
			dec, verdict := oracle.ChunkedStrict(stream)
			switch {
			case verdict == oracle.ChunkMalformed && r.Status < 400:
				t.Fatalf("C12: %s accepted (%d) a stream that is not aws-chunked framing", cfg.K, r.Status)
			case verdict == oracle.ChunkWellFormed && len(dec) == declared && (r.Status != 200 || g.Status != 200 || !bytes.Equal(g.Body, dec)):
				t.Fatalf("C12: %s: a well-formed stream of %d payload bytes was answered %d and the key reads %d with %d bytes", cfg.K, len(dec), r.Status, g.Status, len(g.Body))
			case verdict != oracle.ChunkMalformed && len(dec) != declared && r.Status < 400:
				t.Fatalf("C12: %s accepted (%d) a stream of %d payload bytes declared as %d", cfg.K, r.Status, len(dec), declared)
			}
			if r.Status >= 400 {
				if g.Status != 200 || !bytes.Equal(g.Body, c12Prior) {
					t.Fatalf("C12: %s rejected the stream (%d) but the key changed", cfg.K, r.Status)
				}
				continue
			}
			// accepted: the stored object must have the declared length and its bytes must occur, in
			// order, in the stream (it is a concatenation of chunk payloads)
			if g.Status != 200 || len(g.Body) != declared {
				t.Fatalf("C12: %s accepted the stream (%d) but stored %d bytes for a declared length of %d", cfg.K, r.Status, len(g.Body), declared)
			}
			if !isSubsequence(g.Body, stream) {
				t.Fatalf("C12: %s stored bytes that are not a concatenation of pieces of the stream", cfg.K)
			}
		}
	})
}

func isSubsequence(sub, s []byte) bool {
	i := 0
	for _, b := range s {
		if i < len(sub) && sub[i] == b {
			i++
		}
	}
	return i == len(sub)
}

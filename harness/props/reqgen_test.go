//go:build verif

package props

import (
	"bytes"
	"encoding/base64"
	"fmt"
	"mime/multipart"
	"net/url"
	"strings"

	"verif/harness/oracle"
	"verif/harness/prog"
	"verif/harness/s3x"

	"pgregory.net/rapid"
)

// Grammar of the routed S3 surface, shared by C09 (hostile values) and C16
// (biased to well-formed requests).

// lreq is a logical request: it names a bucket and a key instead of a path, so
// that it can be sent path-style or virtual-host-style.
type lreq struct {
	Method string      `json:"method"`
	Bucket string      `json:"bucket,omitempty"`
	Key    string      `json:"key,omitempty"`
	Query  [][2]string `json:"query,omitempty"`
	Header [][2]string `json:"header,omitempty"`
	Body   []byte      `json:"body,omitempty"`
	// RawPath, if set, replaces /bucket/key (path-style only; unescaped form).
	RawPath string `json:"rawPath,omitempty"`
	// Slash adds extra slashes: "lead" (before the bucket), "trail" (at the end), "both".
	Slash  string `json:"slash,omitempty"`
	Family string `json:"family,omitempty"`
	// ShortBy > 0 declares a Content-Length that many bytes larger than the body.
	ShortBy int `json:"shortBy,omitempty"`
	// EncTail is appended to the path of an object request as it is: percent-encoded characters
	// that belong to the key (e.g. "%2F": the key ends in an encoded slash).
	EncTail string `json:"encTail,omitempty"`
}

func (l lreq) pathStyle() *s3x.Req {
	p := "/" + l.Bucket
	if l.Key != "" {
		p += "/" + l.Key
	}
	if l.Bucket == "" {
		p = "/"
	}
	if l.RawPath != "" {
		p = l.RawPath
	}
	switch l.Slash {
	case "lead":
		p = "/" + p
	case "trail":
		if !strings.HasSuffix(p, "/") {
			p += "/"
		}
	case "both":
		p = "//" + p + "//"
	}
	rq := &s3x.Req{Method: l.Method, Path: p, Query: l.Query, Header: l.Header, Body: l.Body}
	if l.Key != "" && l.RawPath == "" && l.Slash == "" {
		rq.RawSuffix = l.EncTail
	}
	if l.ShortBy > 0 {
		rq.ContentLength = s3x.I64(int64(len(l.Body) + l.ShortBy))
	}
	return rq
}

// genCtx is what the generator knows about the store's state.
type genCtx struct {
	Buckets   []string // existing
	Absent    []string
	Keys      []string
	Versions  map[string][]string // key -> version IDs ever
	Uploads   []*prog.MUpload
	Tokens    []string
	Live      []string // "bucket\x00key" of the keys that are live after the setup
	Hostile   int      // 0..100: percentage of hostile parameter values
	HostStyle bool     // restrict to requests expressible in virtual-host form (single-label buckets, no RawPath)
	// NoDotKeys keeps keys with empty, "." or ".." segments out of the stream (file-system
	// backends: such keys are C10's business, and on afero's MemMapFs a stored key "." makes
	// the directory walk recurse until the process dies, which no in-process harness survives).
	NoDotKeys bool
}

func dotKey(k string) bool {
	for _, seg := range strings.Split(strings.Trim(k, "/"), "/") {
		if seg == "" || seg == "." || seg == ".." {
			return true
		}
	}
	return false
}

func ctxFromRunner(r *prog.Runner, hostile int) *genCtx {
	c := &genCtx{Versions: map[string][]string{}, Hostile: hostile, Absent: []string{"nosuch", "absent-bucket"}}
	for b, mb := range r.M.Buckets {
		c.Buckets = append(c.Buckets, b)
		for k, mk := range mb.Keys {
			c.Keys = append(c.Keys, k)
			c.Versions[k] = append(c.Versions[k], mk.Ever...)
			if mb.Live(k) != nil {
				c.Live = append(c.Live, b+"\x00"+k)
			}
		}
	}
	sortStrings(c.Buckets)
	sortStrings(c.Keys)
	sortStrings(c.Live)
	c.Keys = dedup(append(c.Keys, "a", "d/x", "new-key"))
	c.Uploads = r.M.Uploads
	for _, k := range c.Keys {
		c.Tokens = append(c.Tokens, base64.URLEncoding.EncodeToString([]byte(k)))
	}
	if len(c.Buckets) == 0 {
		c.Buckets = []string{"bk0"}
	}
	return c
}

func sortStrings(s []string) {
	for i := 1; i < len(s); i++ {
		for j := i; j > 0 && s[j] < s[j-1]; j-- {
			s[j], s[j-1] = s[j-1], s[j]
		}
	}
}

var hostileInts = []string{"0", "-1", "1", "2", "3", "999", "1000", "1001", "2147483647", "2147483648", "4294967296", "9223372036854775807", "9223372036854775808",
	"-9223372036854775808", "1000000000000000000000000000000", "abc", "", " 1", "1 ", "+1", "0x10", "1e3", "1.5", "٣", "\x00"}

var hostileStrings = []string{"", " ", "/", "//", "..", "../..", "%", "%zz", "%00", "\x00", "a\nb", "ü", "日本語", "😀", strings.Repeat("A", 1025), strings.Repeat("/", 40),
	"null", "undefined", "<xml>", "&amp;", "]]>", "'", "\"", "\\", "?", "#", "a=b&c=d", "3/AAAA", "3/" + strings.Repeat("0", 60), "!!!", "====", "dGVzdA", "dGVzdA==", "-", "_", "*"}

func (c *genCtx) hostile(rt *rapid.T) bool {
	return rapid.IntRange(0, 99).Draw(rt, "hostile?") < c.Hostile
}

func (c *genCtx) intVal(rt *rapid.T, valid []string) string {
	if c.hostile(rt) {
		return rapid.SampledFrom(hostileInts).Draw(rt, "hint")
	}
	return rapid.SampledFrom(valid).Draw(rt, "int")
}

func (c *genCtx) strVal(rt *rapid.T, valid []string) string {
	if c.hostile(rt) || len(valid) == 0 {
		if rapid.IntRange(0, 3).Draw(rt, "hs-rand") == 0 {
			return rapid.StringOfN(rapid.Rune(), 0, 12, -1).Draw(rt, "hs-r")
		}
		return rapid.SampledFrom(hostileStrings).Draw(rt, "hstr")
	}
	return rapid.SampledFrom(valid).Draw(rt, "str")
}

func (c *genCtx) bucket(rt *rapid.T) string {
	r := rapid.IntRange(0, 99).Draw(rt, "bucket?")
	switch {
	case r < 75 || (c.Hostile == 0 && r < 92):
		return rapid.SampledFrom(c.Buckets).Draw(rt, "bucket")
	case r < 92:
		return rapid.SampledFrom(c.Absent).Draw(rt, "absent")
	default:
		if c.HostStyle {
			return rapid.SampledFrom([]string{"UPPER", "ab", "a_b", "xn--0", "x"}).Draw(rt, "oddbucket")
		}
		return rapid.SampledFrom([]string{"_meta", "UPPER", "ab", "a_b", ".", "..", "a..b", "buckets", "metadata", "b%2Fk", "192.168.100.200", strings.Repeat("b", 64), "ü"}).Draw(rt, "badbucket")
	}
}

func (c *genCtx) key(rt *rapid.T) string {
	k := c.key0(rt)
	if c.NoDotKeys && dotKey(k) {
		return "dotless/" + strings.NewReplacer("/", "_", ".", "_").Replace(k)
	}
	return k
}

func (c *genCtx) key0(rt *rapid.T) string {
	if c.HostStyle && rapid.IntRange(0, 5).Draw(rt, "oddkey?") == 0 {
		// keys that a path-cleaning router would change; expressible in both addressing styles
		return rapid.SampledFrom([]string{"dir//obj", "dir/./obj", "dir/sub/../obj", "../bk1/a", "a/..", "./a", "d//x", "sp ace/q?x", "ü/日本", "plus+/a&b=c", ".hidden", "..double"}).Draw(rt, "oddkey")
	}
	if c.HostStyle && len(c.Buckets) > 0 && rapid.IntRange(0, 5).Draw(rt, "bucketkey?") == 0 {
		// keys spelled like a bucket: in host style the path is the key, whatever it starts with
		b := rapid.SampledFrom(c.Buckets).Draw(rt, "keybucket")
		return rapid.SampledFrom([]string{b, b + "/x", b + "/" + b, b + "/a", b + ".x"}).Draw(rt, "bucketkey")
	}
	if c.hostile(rt) && !c.HostStyle {
		return rapid.SampledFrom([]string{"a/../b", "../x", ".", "..", "a//b", "a/./b", ".hidden", "a\\b", "%2e%2e%2f", strings.Repeat("k", 1024), strings.Repeat("k", 1025),
			strings.Repeat("k/", 1000) + "k", "ü/日本", "sp ace", "q?x=1", "h#ash", "plus+", "a&b=c", "trailing/"}).Draw(rt, "hkey")
	}
	return rapid.SampledFrom(c.Keys).Draw(rt, "key")
}

func (c *genCtx) versionID(rt *rapid.T, key string) string {
	var valid []string
	valid = append(valid, c.Versions[key]...)
	for _, vs := range c.Versions {
		valid = append(valid, vs...)
	}
	valid = append(valid, "null")
	return c.strVal(rt, valid)
}

func (c *genCtx) upload(rt *rapid.T) (id, bucket, key string) {
	if len(c.Uploads) > 0 && rapid.IntRange(0, 9).Draw(rt, "upl?") > 0 {
		u := rapid.SampledFrom(c.Uploads).Draw(rt, "upload")
		id, bucket, key = u.ID, u.B, u.Key
		if c.hostile(rt) {
			switch rapid.IntRange(0, 2).Draw(rt, "uplmut") {
			case 0:
				key = c.key(rt)
			case 1:
				bucket = c.bucket(rt)
			default:
				id = rapid.SampledFrom([]string{"0", "-1", "999999", "abc", "1e3", strings.Repeat("9", 40), " ", "1 "}).Draw(rt, "uplid")
			}
		}
		return
	}
	return rapid.SampledFrom([]string{"1", "2", "999", "abc", "-1"}).Draw(rt, "uplid2"), c.bucket(rt), c.key(rt)
}

var mutXML = []string{"", "<", "<a>", "<Delete>", "<Delete><Object></Object></Delete>", "<Delete><Object><Key></Key></Object></Delete>", "not xml at all",
	"<?xml version=\"1.0\"?><!DOCTYPE x [<!ENTITY a \"b\">]><Delete><Object><Key>&a;</Key></Object></Delete>",
	"<CompleteMultipartUpload><Part><PartNumber>-1</PartNumber><ETag>x</ETag></Part></CompleteMultipartUpload>",
	"<CompleteMultipartUpload><Part><PartNumber>0</PartNumber><ETag>x</ETag></Part></CompleteMultipartUpload>",
	"<CompleteMultipartUpload><Part><PartNumber>99999999999999999999</PartNumber><ETag>x</ETag></Part></CompleteMultipartUpload>",
	"<CompleteMultipartUpload><Part><PartNumber>abc</PartNumber></Part></CompleteMultipartUpload>",
	"<CompleteMultipartUpload></CompleteMultipartUpload>",
	"<CompleteMultipartUpload><Part><PartNumber>1</PartNumber><ETag></ETag></Part><Part><PartNumber>1</PartNumber><ETag></ETag></Part></CompleteMultipartUpload>",
	"<VersioningConfiguration><Status>Maybe</Status></VersioningConfiguration>", "<VersioningConfiguration><MfaDelete>Enabled</MfaDelete></VersioningConfiguration>",
	"<VersioningConfiguration><Status>Enabled</Status><MfaDelete>Enabled</MfaDelete></VersioningConfiguration>", "<VersioningConfiguration/>",
	"<VersioningConfiguration><Status><X/></Status></VersioningConfiguration>", "\xff\xfe<\x00a\x00>", strings.Repeat("<a>", 3000), "<a>" + strings.Repeat("x", 70000) + "</a>",
	"<Delete><Quiet>maybe</Quiet><Object><Key>a</Key></Object></Delete>", "<Delete><Object><Key>a</Key><VersionId>null</VersionId></Object></Delete>",
	"<Delete><Object><Key>a</Key><VersionId>3/zzz</VersionId></Object></Delete>"}

func (c *genCtx) xmlBody(rt *rapid.T, valid string) []byte {
	if !c.hostile(rt) {
		return []byte(valid)
	}
	switch rapid.IntRange(0, 3).Draw(rt, "xmlmut") {
	case 0:
		if len(valid) > 1 {
			return []byte(valid[:rapid.IntRange(0, len(valid)-1).Draw(rt, "cut")])
		}
		return nil
	case 1:
		return rapid.SliceOfN(rapid.Byte(), 0, 64).Draw(rt, "randbody")
	default:
		return []byte(rapid.SampledFrom(mutXML).Draw(rt, "mutxml"))
	}
}

var families = []string{"listBuckets", "listBucket", "listBucket", "listBucketV2", "listBucketV2", "location", "getVersioning", "putVersioning", "listVersions", "listVersions",
	"createBucket", "deleteBucket", "headBucket", "deleteMulti", "deleteMulti", "browserUpload", "getObject", "getObject", "getObject", "headObject", "putObject", "putObject", "putObject",
	"copyObject", "copyObject", "chunkedPut", "deleteObject", "getVersion", "headVersion", "deleteVersion", "initiate", "uploadPart", "uploadPart", "complete", "complete", "abort",
	"listParts", "listParts", "listUploads", "listUploads", "options", "oddMethod", "oddSubresource", "rawPath", "conditionalGet", "conditionalGet"}

// genRequest draws one logical request.
func genRequest(rt *rapid.T, c *genCtx) lreq {
	fam := rapid.SampledFrom(families).Draw(rt, "family")
	b := c.bucket(rt)
	k := c.key(rt)
	l := lreq{Family: fam, Bucket: b}
	addQ := func(kv ...string) { l.Query = append(l.Query, s3x.Q(kv...)...) }
	addH := func(kv ...string) { l.Header = append(l.Header, s3x.H(kv...)...) }
	maybe := func(label string, pct int) bool { return rapid.IntRange(0, 99).Draw(rt, label) < pct }
	listParams := func() {
		if maybe("prefix?", 50) {
			addQ("prefix", c.strVal(rt, []string{"a", "d/", "d", "", "d/e/", "z"}))
		}
		if maybe("delim?", 50) {
			addQ("delimiter", c.strVal(rt, []string{"/", "/", "/", "a", "-"}))
		}
		if maybe("maxkeys?", 50) {
			addQ("max-keys", c.intVal(rt, []string{"1", "2", "3", "1000"}))
		}
		if maybe("enc?", 10) {
			addQ("encoding-type", c.strVal(rt, []string{"url"}))
		}
	}
	switch fam {
	case "listBuckets":
		l.Method, l.Bucket = "GET", ""
		if c.HostStyle {
			l.Bucket = b
		}
	case "listBucket":
		l.Method = "GET"
		listParams()
		if maybe("marker?", 50) {
			addQ("marker", c.strVal(rt, c.Keys))
		}
	case "listBucketV2":
		l.Method = "GET"
		addQ("list-type", c.strVal(rt, []string{"2", "2", "2", "1"}))
		listParams()
		if maybe("token?", 40) {
			addQ("continuation-token", c.strVal(rt, c.Tokens))
		}
		if maybe("startafter?", 40) {
			addQ("start-after", c.strVal(rt, c.Keys))
		}
		if maybe("owner?", 20) {
			addQ("fetch-owner", c.strVal(rt, []string{"true", "false"}))
		}
	case "location":
		l.Method = "GET"
		addQ("location", s3x.Bare)
	case "getVersioning":
		l.Method = "GET"
		addQ("versioning", s3x.Bare)
	case "putVersioning":
		l.Method = "PUT"
		addQ("versioning", s3x.Bare)
		st := rapid.SampledFrom([]string{"Enabled", "Suspended", "Enabled"}).Draw(rt, "vstatus")
		l.Body = c.xmlBody(rt, `<VersioningConfiguration xmlns="http://s3.amazonaws.com/doc/2006-03-01/"><Status>`+st+`</Status></VersioningConfiguration>`)
	case "listVersions":
		l.Method = "GET"
		addQ("versions", s3x.Bare)
		listParams()
		if maybe("keymarker?", 60) {
			km := c.strVal(rt, c.Keys)
			addQ("key-marker", km)
			if maybe("vermarker?", 70) {
				addQ("version-id-marker", c.versionID(rt, km))
			}
		} else if maybe("vermarker-alone?", 15) {
			addQ("version-id-marker", c.versionID(rt, k))
		}
	case "createBucket":
		l.Method = "PUT"
	case "deleteBucket":
		l.Method = "DELETE"
		if maybe("force?", 30) {
			addH("x-minio-force-delete", c.strVal(rt, []string{"true", "false"}))
		}
	case "headBucket":
		l.Method = "HEAD"
	case "deleteMulti":
		l.Method = "POST"
		addQ("delete", s3x.Bare)
		var sb strings.Builder
		sb.WriteString("<Delete>")
		if maybe("quiet?", 30) {
			sb.WriteString("<Quiet>true</Quiet>")
		}
		n := rapid.IntRange(0, 4).Draw(rt, "ndel")
		for i := 0; i < n; i++ {
			dk := c.key(rt)
			sb.WriteString("<Object><Key>" + xmlEsc(dk) + "</Key>")
			if maybe("delver?", 40) {
				sb.WriteString("<VersionId>" + xmlEsc(c.versionID(rt, dk)) + "</VersionId>")
			}
			sb.WriteString("</Object>")
		}
		sb.WriteString("</Delete>")
		l.Body = c.xmlBody(rt, sb.String())
	case "browserUpload":
		l.Method = "POST"
		var buf bytes.Buffer
		mw := multipart.NewWriter(&buf)
		if !c.hostile(rt) || maybe("formkey?", 70) {
			mw.WriteField("key", k)
		}
		nf := 1
		if c.hostile(rt) {
			nf = rapid.IntRange(0, 2).Draw(rt, "nfiles")
		}
		for i := 0; i < nf; i++ {
			fw, _ := mw.CreateFormFile("file", "f")
			fw.Write([]byte("form file body"))
		}
		if maybe("formmeta?", 30) {
			mw.WriteField("X-Amz-Meta-Form", "f")
		}
		mw.Close()
		l.Body = buf.Bytes()
		ct := mw.FormDataContentType()
		if c.hostile(rt) {
			ct = rapid.SampledFrom([]string{ct, "multipart/form-data", "multipart/form-data; boundary=", "text/plain", "multipart/form-data; boundary=xxx"}).Draw(rt, "formct")
			if maybe("formcut?", 40) && len(l.Body) > 2 {
				l.Body = l.Body[:rapid.IntRange(0, len(l.Body)-1).Draw(rt, "formcutat")]
			}
		}
		addH("Content-Type", ct)
	case "getObject", "headObject", "conditionalGet":
		l.Method, l.Key = "GET", k
		if fam == "headObject" || (fam == "conditionalGet" && maybe("condhead?", 30)) {
			l.Method = "HEAD"
		}
		if fam == "conditionalGet" && len(c.Live) > 0 {
			// conditional requests only reach the precondition logic for objects that exist
			lk := rapid.SampledFrom(c.Live).Draw(rt, "livekey")
			parts := strings.SplitN(lk, "\x00", 2)
			l.Bucket, l.Key = parts[0], parts[1]
		}
		if maybe("range?", 50) {
			addH("Range", c.strVal(rt, []string{"bytes=0-", "bytes=0-0", "bytes=1-2", "bytes=-1", "bytes=-100", "bytes=5-", "bytes=100-200", "bytes=2-1", "bytes=0-9223372036854775807", "bytes=5-9223372036854775807", "bytes=0-1,2-3", "bits=1-2", "bytes=-0"}))
		}
		if fam == "conditionalGet" || maybe("inm?", 35) {
			// an entity-tag list per RFC 7232: elements are "tag", W/"tag" or *, comma separated;
			// hostile variants break the element syntax
			elems := []string{`"` + strings.Repeat("0", 32) + `"`, "*", etagOf([]byte("x")), etagOf([]byte("0123456789")), `W/"weak"`, `W/` + etagOf([]byte("dx"))}
			if c.hostile(rt) {
				elems = append(elems, "W/", "w/\"x\"", `"`, `""`, "", " ", "W/*", `W/"`, `"unterminated`, "W", "/", `"a"b"`, "noquotes", `W/ "x"`)
			}
			n := rapid.IntRange(1, 3).Draw(rt, "ninm")
			var parts []string
			for i := 0; i < n; i++ {
				parts = append(parts, rapid.SampledFrom(elems).Draw(rt, "inmelem"))
			}
			sep := rapid.SampledFrom([]string{", ", ",", " , ", ",,"}).Draw(rt, "inmsep")
			addH("If-None-Match", strings.Join(parts, sep))
		}
		if maybe("ims?", 25) {
			addH("If-Modified-Since", c.strVal(rt, []string{"Mon, 02 Jan 2006 15:04:05 GMT", "Thu, 02 Jan 2020 03:04:05 GMT", "Fri, 02 Jan 2099 03:04:05 GMT", "yesterday"}))
		}
	case "putObject":
		l.Method, l.Key = "PUT", k
		l.Body = rapid.SliceOfN(rapid.Byte(), 0, 40).Draw(rt, "putbody")
		if maybe("md5?", 40) {
			addH("Content-MD5", c.strVal(rt, []string{md5b64(l.Body), md5b64(l.Body), md5b64([]byte("other"))}))
		}
		if maybe("meta?", 40) {
			addH("X-Amz-Meta-G", c.strVal(rt, []string{"v", "w"}))
		}
		if maybe("ctype?", 30) {
			addH("Content-Type", "text/gen")
		}
		if c.hostile(rt) && maybe("short?", 30) {
			l.ShortBy = rapid.IntRange(1, 9).Draw(rt, "shortby")
		}
		if c.hostile(rt) && maybe("bigmeta?", 15) {
			addH("X-Amz-Meta-Big", strings.Repeat("m", rapid.IntRange(1800, 4000).Draw(rt, "bigmeta")))
		}
	case "copyObject":
		l.Method, l.Key = "PUT", k
		sb, sk := c.bucket(rt), c.key(rt)
		src := "/" + sb + "/" + url.QueryEscape(sk)
		if c.hostile(rt) {
			src = rapid.SampledFrom([]string{"", "/", "//", sb, sb + "/", "/" + sb, "/" + sb + "/", sb + "/" + sk + "?versionId=3/x", "/" + sb + "/%zz", "/" + sb + "/" + sk + "?versionId=", "///", "a?b", "?", "/?/", src + "/", "nosuch/k", "/nosuch"}).Draw(rt, "hsrc")
		}
		addH("X-Amz-Copy-Source", src)
		if maybe("copymeta?", 30) {
			addH("X-Amz-Meta-C", "c")
		}
	case "chunkedPut":
		l.Method, l.Key = "PUT", k
		payload := rapid.SliceOfN(rapid.Byte(), 0, 60).Draw(rt, "chpayload")
		l.Body = oracle.ChunkedEncode(payload, []int{rapid.IntRange(1, 20).Draw(rt, "chsize")})
		addH("X-Amz-Content-Sha256", "STREAMING-AWS4-HMAC-SHA256-PAYLOAD")
		addH("X-Amz-Decoded-Content-Length", c.intVal(rt, []string{fmt.Sprint(len(payload))}))
		if c.hostile(rt) && len(l.Body) > 1 {
			switch rapid.IntRange(0, 3).Draw(rt, "chmut") {
			case 0:
				l.Body = l.Body[:rapid.IntRange(0, len(l.Body)-1).Draw(rt, "chcut")]
			case 1:
				i := rapid.IntRange(0, len(l.Body)-1).Draw(rt, "chflip")
				l.Body = append([]byte(nil), l.Body...)
				l.Body[i] ^= 0x55
			case 2:
				// an absurd size field on the first or on an additional leading chunk
				sz := rapid.SampledFrom([]string{"-1", "-5", "-7fffffffffffffff", "ffffffffffffffff", "7fffffffffffffff", "10000000000000000", "", "zz", "+5", " 5", "0x5", "-0", "00000000000000000005"}).Draw(rt, "chsz")
				rest := l.Body
				if rapid.Bool().Draw(rt, "chreplace") {
					if j := bytes.IndexByte(rest, ';'); j >= 0 {
						rest = rest[j:]
						l.Body = append([]byte(sz), rest...)
						break
					}
				}
				l.Body = append([]byte(sz+";chunk-signature="+oracle.Sig+"\r\nhello\r\n"), rest...)
			}
		}
	case "deleteObject":
		l.Method, l.Key = "DELETE", k
	case "getVersion", "headVersion", "deleteVersion":
		l.Key = k
		l.Method = map[string]string{"getVersion": "GET", "headVersion": "HEAD", "deleteVersion": "DELETE"}[fam]
		addQ("versionId", c.versionID(rt, k))
		if fam == "getVersion" && maybe("vrange?", 30) {
			addH("Range", c.strVal(rt, []string{"bytes=0-0", "bytes=-1", "bytes=1-"}))
		}
	case "initiate":
		l.Method, l.Key = "POST", k
		addQ("uploads", s3x.Bare)
		if maybe("imeta?", 40) {
			addH("X-Amz-Meta-I", "i")
		}
	case "uploadPart":
		id, ub, uk := c.upload(rt)
		l.Method, l.Bucket, l.Key = "PUT", ub, uk
		addQ("partNumber", c.intVal(rt, []string{"1", "2", "3", "10000"}), "uploadId", id)
		l.Body = rapid.SliceOfN(rapid.Byte(), 0, 30).Draw(rt, "partbody")
		if maybe("pmd5?", 30) {
			addH("Content-MD5", c.strVal(rt, []string{md5b64(l.Body), md5b64([]byte("z"))}))
		}
	case "complete":
		id, ub, uk := c.upload(rt)
		l.Method, l.Bucket, l.Key = "POST", ub, uk
		addQ("uploadId", id)
		var sb strings.Builder
		sb.WriteString("<CompleteMultipartUpload>")
		n := rapid.IntRange(0, 3).Draw(rt, "nparts")
		for i := 0; i < n; i++ {
			pn := c.intVal(rt, []string{"1", "2", "3", "4", "5", "10000", "10001"})
			et := `"` + strings.Repeat("0", 32) + `"`
			for _, u := range c.Uploads {
				if u.ID == id {
					var num int
					fmt.Sscan(pn, &num)
					if p := u.Parts[num]; p != nil && !c.hostile(rt) {
						et = p.ETag
					}
				}
			}
			sb.WriteString("<Part><PartNumber>" + xmlEsc(pn) + "</PartNumber><ETag>" + xmlEsc(et) + "</ETag></Part>")
		}
		sb.WriteString("</CompleteMultipartUpload>")
		l.Body = c.xmlBody(rt, sb.String())
	case "abort":
		id, ub, uk := c.upload(rt)
		l.Method, l.Bucket, l.Key = "DELETE", ub, uk
		addQ("uploadId", id)
	case "listParts":
		id, ub, uk := c.upload(rt)
		l.Method, l.Bucket, l.Key = "GET", ub, uk
		addQ("uploadId", id)
		if maybe("maxparts?", 50) {
			addQ("max-parts", c.intVal(rt, []string{"1", "2", "1000"}))
		}
		if maybe("pmarker?", 50) {
			addQ("part-number-marker", c.intVal(rt, []string{"0", "1", "2", "3"}))
		}
	case "listUploads":
		l.Method = "GET"
		addQ("uploads", s3x.Bare)
		if maybe("uprefix?", 40) {
			addQ("prefix", c.strVal(rt, []string{"a", "d/", ""}))
		}
		if maybe("udelim?", 40) {
			addQ("delimiter", c.strVal(rt, []string{"/"}))
		}
		if maybe("umax?", 50) {
			addQ("max-uploads", c.intVal(rt, []string{"1", "2", "1000"}))
		}
		if maybe("ukm?", 50) {
			addQ("key-marker", c.strVal(rt, c.Keys))
			if maybe("uidm?", 60) {
				var ids []string
				for _, u := range c.Uploads {
					ids = append(ids, u.ID)
				}
				ids = append(ids, "1")
				addQ("upload-id-marker", c.strVal(rt, ids))
			}
		}
	case "options":
		l.Method, l.Key = "OPTIONS", k
		if maybe("preflight?", 60) {
			addH("Origin", "http://example.com", "Access-Control-Request-Method", "PUT")
		}
	case "oddMethod":
		l.Method = rapid.SampledFrom([]string{"PATCH", "TRACE", "CONNECT", "FOO", "get", "PROPFIND", "POST", "PUT", "DELETE", "HEAD"}).Draw(rt, "oddmethod")
		if maybe("oddkey?", 50) {
			l.Key = k
		}
		if maybe("oddsub?", 60) {
			addQ(rapid.SampledFrom([]string{"uploads", "versioning", "versions", "delete", "location", "acl", "tagging", "uploadId", "versionId", "policy", "lifecycle"}).Draw(rt, "oddq"), c.strVal(rt, []string{s3x.Bare, "1", "x"}))
		}
		if l.Method == "POST" || l.Method == "PUT" {
			l.Body = rapid.SliceOfN(rapid.Byte(), 0, 20).Draw(rt, "oddbody")
		}
		if maybe("nobucket?", 20) && !c.HostStyle {
			l.Bucket, l.Key = "", ""
		}
	case "oddSubresource":
		l.Method = rapid.SampledFrom([]string{"GET", "PUT", "POST", "DELETE", "HEAD"}).Draw(rt, "osm")
		if maybe("oskey?", 60) {
			l.Key = k
		}
		n := rapid.IntRange(1, 3).Draw(rt, "nsub")
		for i := 0; i < n; i++ {
			addQ(rapid.SampledFrom([]string{"uploads", "versioning", "versions", "delete", "location", "uploadId", "versionId", "partNumber", "list-type", "acl", "torrent", "x"}).Draw(rt, "osq"),
				c.strVal(rt, []string{s3x.Bare, "1", "2", "null", ""}))
		}
		if l.Method == "POST" || l.Method == "PUT" {
			l.Body = rapid.SliceOfN(rapid.Byte(), 0, 20).Draw(rt, "osbody")
		}
	case "rawPath":
		l.Method = rapid.SampledFrom([]string{"GET", "PUT", "DELETE", "HEAD", "POST"}).Draw(rt, "rpm")
		if c.HostStyle {
			l.Key = k
			break
		}
		l.RawPath = rapid.SampledFrom([]string{"/", "//", "///", "/" + b, "/" + b + "/", "//" + b + "//" + k, "/" + b + "/../" + b + "/" + k, "/./" + b, "/" + b + "/./" + k, "/" + b + "/" + k + "/",
			"/%2e%2e/" + b, "/" + b + "/" + strings.Repeat("x/", 700), "/" + strings.Repeat("y", 2100), "/" + b + "/\x00", "/" + b + "/a b", "/?", "/" + b + "/%"}).Draw(rt, "rawpath")
		if l.Method == "PUT" || l.Method == "POST" {
			l.Body = []byte("raw")
		}
		if c.NoDotKeys {
			if parts := strings.SplitN(strings.Trim(l.RawPath, "/"), "/", 2); len(parts) == 2 && dotKey(parts[1]) {
				l.RawPath = "/" + b + "/plain"
			}
		}
	}
	if !c.HostStyle || l.RawPath == "" {
		if rapid.IntRange(0, 19).Draw(rt, "slash?") == 0 {
			l.Slash = rapid.SampledFrom([]string{"lead", "trail", "both"}).Draw(rt, "slash")
			if c.HostStyle && l.Slash != "trail" {
				l.Slash = "trail"
			}
		}
	}
	if c.HostStyle && l.Key != "" && l.Slash == "" && l.RawPath == "" && rapid.IntRange(0, 11).Draw(rt, "enctail?") == 0 {
		// percent-encoded characters at the end of the key: the same object in both addressing styles
		l.EncTail = rapid.SampledFrom([]string{"%2F", "%2F%2F", "%2f", "%20", "%2B", "%25", "%3F"}).Draw(rt, "enctail")
	}
	if c.hostile(rt) && rapid.IntRange(0, 9).Draw(rt, "xdate?") == 0 {
		addH("x-amz-date", rapid.SampledFrom([]string{"20200102T030405Z", "19700101T000000Z", "garbage", "20990101T000000Z", ""}).Draw(rt, "xdate"))
	}
	return l
}

func xmlEsc(s string) string {
	var b bytes.Buffer
	for _, r := range s {
		switch {
		case r == '<':
			b.WriteString("&lt;")
		case r == '>':
			b.WriteString("&gt;")
		case r == '&':
			b.WriteString("&amp;")
		case r < 0x20 && r != '\t' && r != '\n' && r != '\r', r == 0xFFFE, r == 0xFFFF:
			b.WriteString("?")
		default:
			b.WriteRune(r)
		}
	}
	return b.String()
}

func md5b64(b []byte) string {
	h := md5hexBytes(b)
	return base64.StdEncoding.EncodeToString(h)
}

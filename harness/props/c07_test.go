//go:build verif

package props

import (
	"bytes"
	"encoding/json"
	"encoding/xml"
	"fmt"
	"io"
	"os"
	"sort"
	"strings"
	"sync"
	"sync/atomic"
	"testing"
	"time"

	"verif/harness/backends"
	"verif/harness/evid"
	"verif/harness/prog"
	"verif/harness/s3x"

	"github.com/anishathalye/porcupine"
	"github.com/johannesboyne/gofakes3"
	"pgregory.net/rapid"
)

// C07 — concurrent clients see linearizable, race-free behaviour.

type c07Op struct {
	K    string `json:"op"` // put get head del copy list vput part
	Key  int    `json:"key"`
	Src  int    `json:"src,omitempty"`
	Size int    `json:"size,omitempty"`
	Part int    `json:"part,omitempty"`
}

type c07Case struct {
	Backend   backends.Kind `json:"backend"`
	Keys      int           `json:"keys"`
	Versioned bool          `json:"versioned,omitempty"`
	Multipart bool          `json:"multipart,omitempty"`
	Clients   [][]c07Op     `json:"clients"`
	// Gated schedule (check "gated"): see c07Gated
	Gated *c07GatedSpec `json:"gated,omitempty"`
	// Bucket schedule (check "bucket-gated"): see c07BucketGated
	Bucket *c07BucketSpec `json:"bucket,omitempty"`
	// Walk schedule (check "walk-vs-delete"): see c07WalkVsDelete
	Walk *c07WalkSpec `json:"walk,omitempty"`
}

// c07WalkSpec (check "walk-vs-delete"): one client pages through the listing while another deletes and
// adds keys between two of its pages
type c07WalkSpec struct {
	V2     bool   `json:"v2,omitempty"`
	Victim string `json:"victim"` // the key deleted after the first page: last-of-page | next | first | none
	Max    int    `json:"max"`
}

// c07WalkVsDelete: the walker's requests and the other client's requests are issued one after the
// other (an interleaving like any other). Each page answers for the moment it is served: a key that
// exists, untouched, from before the first page until after the last one is on exactly one page;
// keys deleted or added in between are on at most one; nothing else is listed.
func c07WalkVsDelete(k backends.Kind, spec c07WalkSpec) (ds []disc) {
	st := backends.Must(k, backends.Options{})
	defer st.Close()
	if err := ensureBucket(st, "bk0"); err != nil {
		panic(err)
	}
	how := fmt.Sprintf("backend=%s v2=%v victim=%s max-keys=%d: ", k, spec.V2, spec.Victim, spec.Max)
	var stable []string
	for i := 1; i <= 6; i++ {
		key := fmt.Sprintf("p/k%d", i)
		if r := put(st, "bk0", key, []byte("stable "+key)); r.Status != 200 {
			panic("harness: " + r.String())
		}
		stable = append(stable, key)
	}
	seen := map[string]int{}
	pos, victim := "", ""
	for page := 1; page <= 12; page++ {
		q := []string{"prefix", "p/", "max-keys", fmt.Sprint(spec.Max)}
		if spec.V2 {
			q = append(q, "list-type", "2")
		}
		if pos != "" {
			if spec.V2 {
				q = append(q, "continuation-token", pos)
			} else {
				q = append(q, "marker", pos)
			}
		}
		doc, r := listDoc(st, "bk0", q...)
		if doc == nil {
			return dsc("walk-page-failed", how+"page %d (%v): %s", page, q, r)
		}
		var keys []string
		for _, e := range doc.Contents {
			seen[e.Key]++
			keys = append(keys, e.Key)
		}
		if !doc.IsTruncated {
			break
		}
		if len(keys) == 0 {
			return dsc("walk-does-not-end", how+"page %d is empty and truncated", page)
		}
		switch {
		case spec.V2:
			pos = doc.NextContinuationToken
		case doc.NextMarker != "":
			pos = doc.NextMarker
		default:
			pos = keys[len(keys)-1]
		}
		if page == 1 {
			// the other client, between the walker's first and second page
			switch spec.Victim {
			case "last-of-page":
				victim = keys[len(keys)-1]
			case "first":
				victim = keys[0]
			case "next":
				for i, sk := range stable {
					if sk == keys[len(keys)-1] && i+1 < len(stable) {
						victim = stable[i+1]
					}
				}
			}
			if victim != "" {
				if r := del(st, "bk0", victim); r.Status != 204 {
					panic("harness: " + r.String())
				}
			}
			if r := put(st, "bk0", "p/k25", []byte("added during the walk")); r.Status != 200 {
				panic("harness: " + r.String())
			}
		}
	}
	for _, sk := range stable {
		n := seen[sk]
		switch {
		case sk == victim && n > 1:
			ds = append(ds, dsc("walk-repeats", how+"%q (deleted during the walk) is on %d pages", sk, n)...)
		case sk != victim && n != 1:
			ds = append(ds, dsc("walk-misses-stable-key", how+"%q exists, untouched, during the whole walk and is on %d pages (the other client deleted %q and added p/k25 after page 1); listed: %v", sk, n, victim, seen)...)
		}
		delete(seen, sk)
	}
	if seen["p/k25"] > 1 {
		ds = append(ds, dsc("walk-repeats", how+"p/k25 (added during the walk) is on %d pages", seen["p/k25"])...)
	}
	delete(seen, "p/k25")
	if len(seen) > 0 {
		ds = append(ds, dsc("listed-phantom", how+"the walk lists keys nobody stored: %v", seen)...)
	}
	return ds
}

// c07RetriedComplete (check "retried-complete"): a completion that the backend refuses (another client
// deleted the bucket; or, on the file system backends, another client's object stands where the key
// needs a directory) is sent again once the obstacle is gone. Whatever is acknowledged in the end is
// the acknowledged parts, joined.
func c07RetriedComplete(k backends.Kind, route string) (ds []disc) {
	st := backends.Must(k, backends.Options{})
	defer st.Close()
	if err := ensureBucket(st, "bk0"); err != nil {
		panic(err)
	}
	how := fmt.Sprintf("backend=%s route=%s: ", k, route)
	key := "dir/key"
	x := s3x.Do(st.Handler, &s3x.Req{Method: "POST", Path: "/bk0/" + key, Query: s3x.Q("uploads", s3x.Bare)})
	var d s3x.InitiateDoc
	if x.Status != 200 || x.XML(&d) != nil {
		panic("harness: initiate: " + x.String())
	}
	parts := [][]byte{prog.Pattern(8193, 7), prog.Pattern(100, 8)}
	var want []byte
	cb := "<CompleteMultipartUpload>"
	for i, p := range parts {
		r := s3x.Do(st.Handler, &s3x.Req{Method: "PUT", Path: "/bk0/" + key, Query: s3x.Q("partNumber", fmt.Sprint(i+1), "uploadId", d.UploadId), Body: p})
		if r.Status != 200 {
			panic("harness: part: " + r.String())
		}
		cb += fmt.Sprintf("<Part><PartNumber>%d</PartNumber><ETag>%s</ETag></Part>", i+1, xmlEsc(r.Header.Get("ETag")))
		want = append(want, p...)
	}
	cb += "</CompleteMultipartUpload>"
	complete := func() *s3x.Resp {
		return s3x.Do(st.Handler, &s3x.Req{Method: "POST", Path: "/bk0/" + key, Query: s3x.Q("uploadId", d.UploadId), Body: []byte(cb)})
	}
	// the other client puts the obstacle in place
	switch route {
	case "bucket":
		if r := s3x.Do(st.Handler, &s3x.Req{Method: "DELETE", Path: "/bk0"}); r.Status != 204 {
			return nil // a backend that keeps the bucket: nothing to retry
		}
	case "colliding-key":
		if r := put(st, "bk0", "dir", []byte("another client's object")); r.Status != 200 {
			return nil
		}
	}
	first := complete()
	if first.Panic != "" {
		return dsc("panic", how+"complete: %s at %s", first.Panic, first.PanicSite)
	}
	// ... and takes it away again
	switch route {
	case "bucket":
		if r := s3x.Do(st.Handler, &s3x.Req{Method: "PUT", Path: "/bk0"}); r.Status != 200 {
			panic("harness: re-create: " + r.String())
		}
	case "colliding-key":
		if r := del(st, "bk0", "dir"); r.Status != 204 {
			panic("harness: " + r.String())
		}
	}
	second := complete()
	if second.Panic != "" {
		return dsc("panic", how+"retried complete: %s at %s", second.Panic, second.PanicSite)
	}
	acked := (first.Status == 200 && !bytes.Contains(first.Body, []byte("<Error>"))) || (second.Status == 200 && !bytes.Contains(second.Body, []byte("<Error>")))
	g := get(st, "bk0", key)
	switch {
	case g.Status == 200 && !bytes.Equal(g.Body, want):
		ds = append(ds, dsc("assembled-object-wrong", how+"first complete answered %d, the retried one %d; the key now reads %d bytes (md5 %s), the acknowledged parts join to %d bytes (md5 %s)", first.Status, second.Status, len(g.Body), md5hex(g.Body), len(want), md5hex(want))...)
	case acked && route == "colliding-key" && g.Status != 200:
		ds = append(ds, dsc("assembled-object-missing", how+"a completion was acknowledged (first %d, retried %d) but the key reads %s", first.Status, second.Status, g)...)
	}
	return ds
}

type c07BucketSpec struct {
	GateAt   int  `json:"gateAt"`
	Recreate bool `json:"recreate"`
}

// one recorded operation of a history
type c07Ev struct {
	Client   int               `json:"client"`
	Seq      int               `json:"seq"`
	Op       c07Op             `json:"op"`
	Call     int64             `json:"call"`
	Ret      int64             `json:"ret"`
	Status   int               `json:"status"`
	Wrote    string            `json:"wrote,omitempty"`    // value id written (put/vput)
	Observed string            `json:"observed,omitempty"` // value id observed (get/head/copy source), "-" = absent
	Note     string            `json:"note,omitempty"`
	Version  string            `json:"version,omitempty"`
	Listed   map[string]string `json:"listed,omitempty"` // key -> etag
	bodyOK   bool
}

// keys 1 and 2 share a directory on the file system backends
func c07Key(i int) string { return []string{"k0", "dir/k1", "dir/k2"}[i%3] }

// self-describing bodies: "<id>|<len>|" + pattern
func c07Body(client, seq, size int) ([]byte, string) {
	id := fmt.Sprintf("c%d-s%d", client, seq)
	hdr := fmt.Sprintf("%s|%d|", id, size)
	return append([]byte(hdr), prog.Pattern(size, uint64(client*100003+seq))...), id
}

// c07Identify checks that b is, in full, one body produced by c07Body.
func c07Identify(b []byte) (id string, ok bool) {
	parts := bytes.SplitN(b, []byte("|"), 3)
	if len(parts) != 3 {
		return "", false
	}
	var c, s, n int
	if _, err := fmt.Sscanf(string(parts[0]), "c%d-s%d", &c, &s); err != nil {
		return "", false
	}
	if _, err := fmt.Sscanf(string(parts[1]), "%d", &n); err != nil {
		return "", false
	}
	want, id := c07Body(c, s, n)
	return id, bytes.Equal(want, b)
}

type c07Runner struct {
	st      *backends.Stack
	t0      time.Time
	mu      sync.Mutex
	evs     []c07Ev
	etags   map[string]string // etag -> value id
	vers    sync.Map          // version id -> value id
	deleted sync.Map          // version ids removed by delver-all
	upID    string
}

func (r *c07Runner) now() int64 { return int64(time.Since(r.t0)) }

func (r *c07Runner) record(e c07Ev) {
	r.mu.Lock()
	r.evs = append(r.evs, e)
	r.mu.Unlock()
}

func (r *c07Runner) do(rq *s3x.Req, o s3x.DoOpts) *s3x.Resp { return s3x.DoWith(r.st.Handler, rq, o) }

// exec performs one client operation and records it.
func (r *c07Runner) exec(client, seq int, op c07Op, rqHook func(*s3x.Req), o s3x.DoOpts) {
	key := c07Key(op.Key)
	ev := c07Ev{Client: client, Seq: seq, Op: op}
	var rq *s3x.Req
	switch op.K {
	case "put", "vput":
		body, id := c07Body(client, seq, op.Size)
		ev.Wrote = id
		r.mu.Lock()
		r.etags[etagOf(body)] = id
		r.mu.Unlock()
		rq = &s3x.Req{Method: "PUT", Path: "/bk0/" + key, Body: body}
	case "get":
		rq = &s3x.Req{Method: "GET", Path: "/bk0/" + key}
	case "head":
		rq = &s3x.Req{Method: "HEAD", Path: "/bk0/" + key}
	case "del":
		rq = &s3x.Req{Method: "DELETE", Path: "/bk0/" + key}
	case "copy":
		rq = &s3x.Req{Method: "PUT", Path: "/bk0/" + key, Header: s3x.H("X-Amz-Copy-Source", "/bk0/"+c07Key(op.Src))}
	case "list":
		rq = &s3x.Req{Method: "GET", Path: "/bk0"}
	case "part":
		body, id := c07Body(client, seq, op.Size)
		ev.Wrote = id
		r.mu.Lock()
		r.etags[etagOf(body)] = id
		r.mu.Unlock()
		rq = &s3x.Req{Method: "PUT", Path: "/bk0/mp", Query: s3x.Q("partNumber", fmt.Sprint(op.Part), "uploadId", r.upID), Body: body}
	case "mdel":
		// multi-object delete of the key (and of the second key, if different)
		x := "<Delete><Object><Key>" + key + "</Key></Object>"
		if k2 := c07Key(op.Src); k2 != key {
			x += "<Object><Key>" + k2 + "</Key></Object>"
		}
		rq = &s3x.Req{Method: "POST", Path: "/bk0", Query: s3x.Q("delete", s3x.Bare), Body: []byte(x + "</Delete>")}
	case "badcomplete":
		// a completion that must be refused (it names a part nobody uploads): like every refused
		// request it leaves the upload, and the parts others are sending, alone
		x := `<CompleteMultipartUpload><Part><PartNumber>9</PartNumber><ETag>"` + strings.Repeat("0", 32) + `"</ETag></Part></CompleteMultipartUpload>`
		rq = &s3x.Req{Method: "POST", Path: "/bk0/mp", Query: s3x.Q("uploadId", r.upID), Body: []byte(x)}
	case "lparts":
		rq = &s3x.Req{Method: "GET", Path: "/bk0/mp", Query: s3x.Q("uploadId", r.upID)}
	case "luploads":
		rq = &s3x.Req{Method: "GET", Path: "/bk0", Query: s3x.Q("uploads", s3x.Bare)}
	case "apiread":
		// the read entry points of the Go Backend API, called directly (an embedding program, or a
		// wrapping backend, does): plain and by version with the empty ID that means "current"
		ev.Call = r.now()
		done := make(chan struct{})
		go func() {
			defer close(done)
			defer func() { recover() }()
			be := r.st.Backend
			if o, err := be.GetObject("bk0", key, nil); err == nil && o.Contents != nil {
				io.Copy(io.Discard, o.Contents)
				o.Contents.Close()
			}
			if o, err := be.HeadObject("bk0", key); err == nil && o.Contents != nil {
				o.Contents.Close()
			}
			if vb, ok := be.(gofakes3.VersionedBackend); ok {
				if o, err := vb.GetObjectVersion("bk0", key, "", nil); err == nil && o.Contents != nil {
					io.Copy(io.Discard, o.Contents)
					o.Contents.Close()
				}
				if o, err := vb.HeadObjectVersion("bk0", key, ""); err == nil && o.Contents != nil {
					o.Contents.Close()
				}
			}
		}()
		ev.Status = 200
		select {
		case <-done:
		case <-time.After(30 * time.Second):
			ev.Note, ev.Status = "timeout", -2
			c07Wedged.Store(true)
		}
		ev.Ret = r.now()
		r.record(ev)
		return
	case "delver-all":
		// delete every version of the key that exists right now, by ID
		ev.Call = r.now()
		lv := r.do(&s3x.Req{Method: "GET", Path: "/bk0", Query: s3x.Q("versions", s3x.Bare, "prefix", key)}, o)
		ev.Status = 204
		if doc, err := s3x.ParseVersions(lv.Body); err == nil {
			for _, e := range doc.Entries {
				if e.Key != key {
					continue
				}
				d := r.do(&s3x.Req{Method: "DELETE", Path: "/bk0/" + key, Query: s3x.Q("versionId", e.VersionId)}, o)
				if d.Status != 204 {
					ev.Status = d.Status
					ev.Note = "delete version answered " + d.String()
				}
				r.deleted.Store(e.VersionId, true)
			}
		} else {
			ev.Status = lv.Status
		}
		ev.Ret = r.now()
		r.record(ev)
		return
	}
	if rqHook != nil {
		rqHook(rq)
	}
	ev.Call = r.now()
	resp := r.do(rq, o)
	ev.Ret = r.now()
	ev.Status = resp.Status
	if resp.Panic != "" {
		ev.Note = "panic: " + resp.Panic + " at " + resp.PanicSite
		ev.Status = -1
	}
	if resp.TimedOut {
		ev.Note = "timeout"
		ev.Status = -2
		c07Wedged.Store(true)
	}
	switch op.K {
	case "get":
		switch {
		case resp.Status == 200:
			id, ok := c07Identify(resp.Body)
			ev.Observed, ev.bodyOK = id, ok
			if !ok {
				ev.Note = fmt.Sprintf("body is not one written body: %d bytes, Content-Length %s, starts %q", len(resp.Body), resp.Header.Get("Content-Length"), trunc(resp.Body, 30))
			} else {
				if cl, has := resp.ContentLength(); !has || cl != int64(len(resp.Body)) {
					ev.Note = fmt.Sprintf("Content-Length %d for a body of %d bytes", cl, len(resp.Body))
					ev.bodyOK = false
				}
				if resp.Header.Get("ETag") != etagOf(resp.Body) {
					ev.Note = fmt.Sprintf("ETag %s does not match the body returned (%s)", resp.Header.Get("ETag"), etagOf(resp.Body))
					ev.bodyOK = false
				}
			}
			ev.Version = resp.Header.Get("x-amz-version-id")
		case resp.Status == 404:
			ev.Observed, ev.bodyOK = "-", true
		}
	case "head":
		switch {
		case resp.Status == 200:
			r.mu.Lock()
			ev.Observed = r.etags[resp.Header.Get("ETag")]
			r.mu.Unlock()
			ev.bodyOK = ev.Observed != ""
			if !ev.bodyOK {
				ev.Note = "HEAD ETag " + resp.Header.Get("ETag") + " is not the ETag of any written body"
			}
		case resp.Status == 404:
			ev.Observed, ev.bodyOK = "-", true
		}
	case "copy":
		switch {
		case resp.Status == 200:
			var d s3x.CopyResultDoc
			resp.XML(&d)
			r.mu.Lock()
			ev.Observed = r.etags[d.ETag]
			r.mu.Unlock()
			ev.bodyOK = ev.Observed != ""
			if !ev.bodyOK {
				ev.Note = "CopyObjectResult ETag " + d.ETag + " is not the ETag of any written body"
			}
		case resp.Status == 404:
			ev.Observed, ev.bodyOK = "-", true
		}
	case "list":
		if resp.Status == 200 {
			var d s3x.ListDoc
			if err := resp.XML(&d); err == nil {
				ev.Listed = map[string]string{}
				for _, c := range d.Contents {
					ev.Listed[c.Key] = c.ETag
				}
			}
		}
	case "mdel":
		if resp.Status == 200 {
			var d s3x.DeleteResultDoc
			if err := resp.XML(&d); err != nil {
				ev.Note = "DeleteResult: " + err.Error()
			} else if len(d.Errors) > 0 {
				ev.Note = fmt.Sprintf("DeleteResult carries errors: %+v", d.Errors)
			}
		}
	case "lparts":
		// every listed part is one whose upload has at least begun: its ETag is that of a body
		// some client sent for this part number
		if resp.Status == 200 {
			var d s3x.ListPartsDoc
			if err := resp.XML(&d); err != nil {
				ev.Note = "ListParts: " + err.Error()
			}
			for i, p := range d.Parts {
				r.mu.Lock()
				_, known := r.etags[p.ETag]
				r.mu.Unlock()
				if !known {
					ev.Note = fmt.Sprintf("ListParts shows part %d with ETag %s, which is not the ETag of any body sent", p.PartNumber, p.ETag)
				}
				if i > 0 && d.Parts[i-1].PartNumber >= p.PartNumber {
					ev.Note = fmt.Sprintf("ListParts shows part %d after part %d", p.PartNumber, d.Parts[i-1].PartNumber)
				}
			}
		}
	case "luploads":
		if resp.Status == 200 {
			var d s3x.ListUploadsDoc
			if err := resp.XML(&d); err != nil {
				ev.Note = "ListMultipartUploads: " + err.Error()
			} else if len(d.Uploads) != 1 || d.Uploads[0].UploadId != r.upID {
				ev.Note = fmt.Sprintf("ListMultipartUploads shows %d uploads while exactly one (%s) is pending", len(d.Uploads), r.upID)
			}
		}
	case "vput":
		ev.Version = resp.Header.Get("x-amz-version-id")
		if resp.Status == 200 && ev.Version != "" {
			if prev, loaded := r.vers.LoadOrStore(ev.Version, ev.Wrote); loaded {
				ev.Note = fmt.Sprintf("version ID %s was also issued for upload %v", ev.Version, prev)
			}
		}
	}
	r.record(ev)
}

// ---- oracles over a recorded history ------------------------------------------------

type regIn struct {
	Kind string // w (write value), r (read)
	Val  string
}

var c07Model = porcupine.Model{
	Init: func() interface{} { return "-" },
	Step: func(state, input, output interface{}) (bool, interface{}) {
		in := input.(regIn)
		if in.Kind == "w" {
			return true, in.Val
		}
		return output.(string) == state.(string), state
	},
	Equal: func(a, b interface{}) bool { return a.(string) == b.(string) },
}

func c07Judge(cs c07Case, evs []c07Ev) (ds []disc, overlapping bool) {
	fail := func(kind, f string, a ...interface{}) {
		ds = append(ds, disc{Kind: kind, Detail: fmt.Sprintf("backend=%s: ", cs.Backend) + fmt.Sprintf(f, a...)})
	}
	perKey := map[string][]porcupine.Operation{}
	writesByKey := map[string][]c07Ev{}
	for _, e := range evs {
		key := c07Key(e.Op.Key)
		switch {
		case e.Status == -1:
			fail("panic", "client %d op %d %s %s: %s", e.Client, e.Seq, e.Op.K, key, e.Note)
			continue
		case e.Status == -2:
			fail("did-not-return", "client %d op %d %s %s did not return within the watchdog", e.Client, e.Seq, e.Op.K, key)
			continue
		}
		add := func(k string, in regIn, out string) {
			perKey[k] = append(perKey[k], porcupine.Operation{ClientId: e.Client, Input: in, Output: out, Call: e.Call, Return: e.Ret})
		}
		switch e.Op.K {
		case "put", "vput":
			if e.Status != 200 {
				fail("put-failed", "client %d op %d put %s answered %d", e.Client, e.Seq, key, e.Status)
				continue
			}
			if e.Note != "" {
				fail("duplicate-version-id", "client %d op %d: %s", e.Client, e.Seq, e.Note)
			}
			add(key, regIn{"w", e.Wrote}, "")
			writesByKey[key] = append(writesByKey[key], e)
		case "del":
			if e.Status != 204 {
				fail("delete-failed", "client %d op %d delete %s answered %d", e.Client, e.Seq, key, e.Status)
				continue
			}
			add(key, regIn{"w", "-"}, "")
		case "get", "head":
			if e.Status != 200 && e.Status != 404 {
				fail("read-failed", "client %d op %d %s %s answered %d", e.Client, e.Seq, e.Op.K, key, e.Status)
				continue
			}
			if !e.bodyOK {
				fail("torn-read", "client %d op %d %s %s: %s", e.Client, e.Seq, e.Op.K, key, e.Note)
				continue
			}
			add(key, regIn{"r", ""}, e.Observed)
		case "copy":
			src := c07Key(e.Op.Src)
			if e.Status != 200 && e.Status != 404 {
				fail("copy-failed", "client %d op %d copy %s->%s answered %d", e.Client, e.Seq, src, key, e.Status)
				continue
			}
			if !e.bodyOK {
				fail("torn-read", "client %d op %d copy %s->%s: %s", e.Client, e.Seq, src, key, e.Note)
				continue
			}
			// copy = read(src)=v then write(dst,v), each somewhere inside the copy's interval
			add(src, regIn{"r", ""}, e.Observed)
			if e.Status == 200 {
				add(key, regIn{"w", e.Observed}, "")
			}
		case "list":
			if e.Status != 200 {
				fail("list-failed", "client %d op %d list answered %d", e.Client, e.Seq, e.Status)
			}
		case "delver-all":
			if e.Status != 204 {
				fail("delete-version-failed", "client %d op %d: %s", e.Client, e.Seq, e.Note)
			}
		case "mdel":
			if e.Status != 200 || e.Note != "" {
				fail("delete-failed", "client %d op %d multi-delete answered %d %s", e.Client, e.Seq, e.Status, e.Note)
				continue
			}
			// each named key is deleted at some point inside the request's interval
			add(key, regIn{"w", "-"}, "")
			if k2 := c07Key(e.Op.Src); k2 != key {
				add(k2, regIn{"w", "-"}, "")
			}
		case "badcomplete":
			if e.Status/100 == 2 {
				fail("bad-complete-accepted", "client %d op %d: a completion naming part 9, which nobody uploads, answered %d", e.Client, e.Seq, e.Status)
			}
		case "lparts", "luploads":
			if e.Status != 200 {
				fail("multipart-listing-failed", "client %d op %d %s answered %d while the upload is pending", e.Client, e.Seq, e.Op.K, e.Status)
			} else if e.Note != "" {
				fail("multipart-listing-wrong", "client %d op %d: %s", e.Client, e.Seq, e.Note)
			}
		}
	}
	// (iii) a listed (key, ETag) was written to that key before the list returned
	etagOfID := func(e c07Ev) string {
		b, _ := c07Body(e.Client, e.Seq, e.Op.Size)
		return etagOf(b)
	}
	for _, e := range evs {
		if e.Op.K != "list" || e.Listed == nil {
			continue
		}
		for k, et := range e.Listed {
			if k == "mp" {
				continue
			}
			ok := false
			for _, w := range evs {
				if (w.Op.K == "put" || w.Op.K == "vput") && c07Key(w.Op.Key) == k && w.Call <= e.Ret && etagOfID(w) == et {
					ok = true
				}
				if w.Op.K == "copy" && c07Key(w.Op.Key) == k && w.Call <= e.Ret {
					// a copied value carries the source body's ETag
					ok = ok || etagKnown(evs, et, e.Ret)
				}
			}
			if !ok {
				fail("listed-phantom", "client %d op %d: listing shows %s with ETag %s, which was not written to that key before the listing returned", e.Client, e.Seq, k, et)
			}
		}
	}
	// (ii) per-key linearizability
	keys := make([]string, 0, len(perKey))
	for k := range perKey {
		keys = append(keys, k)
	}
	sort.Strings(keys)
	for _, k := range keys {
		ops := perKey[k]
		for i := range ops {
			for j := range ops {
				if i != j && ops[i].Call <= ops[j].Return && ops[j].Call <= ops[i].Return && ops[i].ClientId != ops[j].ClientId {
					if ops[i].Input.(regIn).Kind == "w" || ops[j].Input.(regIn).Kind == "w" {
						overlapping = true
					}
				}
			}
		}
		res := porcupine.CheckOperationsTimeout(c07Model, ops, 60*time.Second)
		switch res {
		case porcupine.Illegal:
			fail("not-linearizable", "the history of key %s (%d operations) has no linearization: %s", k, len(ops), c07Describe(ops))
		case porcupine.Unknown:
			fail("inconclusive:linearizability-timeout", "linearizability check of key %s (%d operations) timed out", k, len(ops))
		}
	}
	return
}

func etagKnown(evs []c07Ev, et string, before int64) bool {
	for _, w := range evs {
		if (w.Op.K == "put" || w.Op.K == "vput") && w.Call <= before {
			b, _ := c07Body(w.Client, w.Seq, w.Op.Size)
			if etagOf(b) == et {
				return true
			}
		}
	}
	return false
}

func c07Describe(ops []porcupine.Operation) string {
	sort.Slice(ops, func(i, j int) bool { return ops[i].Call < ops[j].Call })
	var sb strings.Builder
	for i, o := range ops {
		if i >= 40 {
			sb.WriteString(" …")
			break
		}
		in := o.Input.(regIn)
		if in.Kind == "w" {
			fmt.Fprintf(&sb, " [c%d w(%s) %d-%d]", o.ClientId, in.Val, o.Call/1000, o.Return/1000)
		} else {
			fmt.Fprintf(&sb, " [c%d r=%s %d-%d]", o.ClientId, o.Output, o.Call/1000, o.Return/1000)
		}
	}
	return sb.String()
}

// ---- random concurrent histories ------------------------------------------------------

func c07Setup(cs c07Case) *c07Runner {
	st := backends.Must(cs.Backend, backends.Options{})
	if err := ensureBucket(st, "bk0"); err != nil {
		panic(err)
	}
	r := &c07Runner{st: st, t0: time.Now(), etags: map[string]string{}}
	if cs.Versioned {
		s3x.Do(st.Handler, &s3x.Req{Method: "PUT", Path: "/bk0", Query: s3x.Q("versioning", s3x.Bare), Body: []byte(`<VersioningConfiguration><Status>Enabled</Status></VersioningConfiguration>`)})
	}
	if cs.Multipart {
		x := s3x.Do(st.Handler, &s3x.Req{Method: "POST", Path: "/bk0/mp", Query: s3x.Q("uploads", s3x.Bare)})
		var d s3x.InitiateDoc
		x.XML(&d)
		r.upID = d.UploadId
	}
	return r
}

// c07Wedged is set once a request did not return: every further schedule of this process would wait
// for its watchdogs too, so the remaining cases are skipped (the run is a violation already).
var c07Wedged atomic.Bool

func c07Exec(cs c07Case) (ds []disc, evs []c07Ev, overlapping bool) {
	if c07Wedged.Load() {
		return nil, nil, false
	}
	r := c07Setup(cs)
	defer r.st.Close()
	var wg sync.WaitGroup
	start := make(chan struct{})
	for ci, ops := range cs.Clients {
		wg.Add(1)
		go func(ci int, ops []c07Op) {
			defer wg.Done()
			<-start
			for si, op := range ops {
				if c07Wedged.Load() {
					return // a request of this schedule did not return: the rest would only wait too
				}
				r.exec(ci, si, op, nil, s3x.DoOpts{Timeout: 30 * time.Second})
			}
		}(ci, ops)
	}
	close(start)
	wg.Wait()
	// quiescence: final reads join the history (oracle vi)
	for k := 0; k < cs.Keys && !c07Wedged.Load(); k++ {
		r.exec(99, k, c07Op{K: "get", Key: k}, nil, s3x.DoOpts{Timeout: 30 * time.Second})
	}
	evs = r.evs
	ds, overlapping = c07Judge(cs, evs)
	for _, d := range ds {
		if d.Kind == "did-not-return" {
			c07Wedged.Store(true)
			return // the server is wedged: the follow-up reads would only wait as well
		}
	}
	// (iv) every versioned upload is retrievable by its ID with exactly its content
	if cs.Versioned {
		for _, e := range evs {
			if e.Op.K == "vput" && e.Status == 200 {
				if e.Version == "" {
					ds = append(ds, dsc("no-version-id", "versioned upload by client %d op %d got no version ID", e.Client, e.Seq)...)
					continue
				}
				g := s3x.Do(r.st.Handler, &s3x.Req{Method: "GET", Path: "/bk0/" + c07Key(e.Op.Key), Query: s3x.Q("versionId", e.Version)})
				want, _ := c07Body(e.Client, e.Seq, e.Op.Size)
				if g.Status != 200 || !bytes.Equal(g.Body, want) {
					id, _ := c07Identify(g.Body)
					ds = append(ds, dsc("version-content", "version %s was issued for upload %s but reads %d / %s (%d bytes)", e.Version, e.Wrote, g.Status, id, len(g.Body))...)
				}
			}
		}
	}
	if cs.Versioned && len(ds) == 0 {
		ds = append(ds, c07VersionsPaged(r.st)...)
	}
	// (vi) at rest, reads and the listing agree: a key that reads back is listed with that ETag (as a
	// key, and below its common prefix in a delimited listing), a key that does not is not listed
	if !cs.Versioned {
		var ld, ldd s3x.ListDoc
		lr := s3x.Do(r.st.Handler, &s3x.Req{Method: "GET", Path: "/bk0"})
		lrd := s3x.Do(r.st.Handler, &s3x.Req{Method: "GET", Path: "/bk0", Query: s3x.Q("delimiter", "/")})
		if lr.Status != 200 || lr.XML(&ld) != nil || lrd.Status != 200 || lrd.XML(&ldd) != nil {
			ds = append(ds, dsc("list-failed", "backend=%s: listing after the clients finished answered %s / %s", cs.Backend, lr, lrd)...)
		} else {
			listed := map[string]string{}
			for _, c := range ld.Contents {
				listed[c.Key] = c.ETag
			}
			delim := map[string]bool{}
			for _, c := range ldd.Contents {
				delim[c.Key] = true
			}
			for _, p := range ldd.Prefixes() {
				delim[p] = true
			}
			for i := 0; i < 3; i++ {
				k := c07Key(i)
				g := s3x.Do(r.st.Handler, &s3x.Req{Method: "GET", Path: "/bk0/" + k})
				et, in := listed[k]
				top := k
				if j := strings.IndexByte(k, '/'); j >= 0 {
					top = k[:j+1]
				}
				switch {
				case g.Status == 200 && (!in || et != g.Header.Get("ETag")):
					ds = append(ds, dsc("listing-lost-key", "backend=%s: at rest %s reads 200 with ETag %s, the listing shows %q (listed=%v)", cs.Backend, k, g.Header.Get("ETag"), et, in)...)
				case g.Status == 200 && !delim[top]:
					ds = append(ds, dsc("listing-lost-key", "backend=%s: at rest %s reads 200, the '/'-delimited listing shows neither it nor %q", cs.Backend, k, top)...)
				case g.Status == 404 && in:
					ds = append(ds, dsc("listing-phantom-key", "backend=%s: at rest %s reads 404, the listing shows it with ETag %s", cs.Backend, k, et)...)
				}
			}
		}
	}
	// (v) multipart: the held parts are acknowledged uploads; complete assembles exactly them
	if cs.Multipart && r.upID != "" {
		ds = append(ds, c07Multipart(r, evs)...)
	}
	return
}

func c07Multipart(r *c07Runner, evs []c07Ev) (ds []disc) {
	lp := s3x.Do(r.st.Handler, &s3x.Req{Method: "GET", Path: "/bk0/mp", Query: s3x.Q("uploadId", r.upID)})
	var d s3x.ListPartsDoc
	if lp.Status != 200 || lp.XML(&d) != nil {
		return dsc("listparts-failed", "ListParts after the concurrent uploads answered %s", lp)
	}
	acked := map[int]map[string][]byte{} // part -> etag -> body
	for _, e := range evs {
		if e.Op.K == "part" && e.Status == 200 {
			b, _ := c07Body(e.Client, e.Seq, e.Op.Size)
			if acked[e.Op.Part] == nil {
				acked[e.Op.Part] = map[string][]byte{}
			}
			acked[e.Op.Part][etagOf(b)] = b
		} else if e.Op.K == "part" {
			ds = append(ds, dsc("part-failed", "client %d op %d upload-part %d answered %d %s", e.Client, e.Seq, e.Op.Part, e.Status, e.Note)...)
		}
	}
	if len(d.Parts) != len(acked) {
		ds = append(ds, dsc("parts-lost", "%d distinct part numbers were acknowledged, ListParts shows %d", len(acked), len(d.Parts))...)
	}
	type cp struct {
		PartNumber int    `xml:"PartNumber"`
		ETag       string `xml:"ETag"`
	}
	type creq struct {
		XMLName xml.Name `xml:"CompleteMultipartUpload"`
		Parts   []cp     `xml:"Part"`
	}
	var cr creq
	var want []byte
	for _, p := range d.Parts {
		b, ok := acked[p.PartNumber][p.ETag]
		if !ok {
			ds = append(ds, dsc("part-phantom", "ListParts shows part %d with ETag %s, which no acknowledged upload of that part has", p.PartNumber, p.ETag)...)
			return
		}
		if p.Size != int64(len(b)) {
			ds = append(ds, dsc("part-size", "part %d lists size %d, the acknowledged body has %d", p.PartNumber, p.Size, len(b))...)
		}
		want = append(want, b...)
		cr.Parts = append(cr.Parts, cp{p.PartNumber, p.ETag})
	}
	if len(cr.Parts) == 0 {
		return
	}
	body, _ := xml.Marshal(cr)
	c := s3x.Do(r.st.Handler, &s3x.Req{Method: "POST", Path: "/bk0/mp", Query: s3x.Q("uploadId", r.upID), Body: body})
	if c.Status != 200 {
		return append(ds, dsc("complete-failed", "complete after concurrent part uploads answered %s", c)...)
	}
	g := s3x.Do(r.st.Handler, &s3x.Req{Method: "GET", Path: "/bk0/mp"})
	if g.Status != 200 || !bytes.Equal(g.Body, want) {
		ds = append(ds, dsc("multipart-assembly", "the completed object has %d bytes (md5 %s), the acknowledged parts concatenate to %d bytes (md5 %s)", len(g.Body), md5hex(g.Body), len(want), md5hex(want))...)
	}
	return
}

// c07VersionsPaged: at rest after a concurrent history, the version listing can be paged with the
// markers the server hands out: every page size terminates and yields the unpaged listing (the IDs
// the overlapping uploads were given order the versions the way the listing's markers assume).
func c07VersionsPaged(st *backends.Stack) (ds []disc) {
	doc, resp := c13List(st, "", "", 0, "", "", false)
	if doc == nil {
		return dsc("versions-unlistable", "at rest, ListObjectVersions answers %s", resp)
	}
	full := c13Entries(doc)
	for mk := 1; mk <= 3; mk++ {
		var got []c13Entry
		km, vm, has := "", "", false
		for pages := 0; ; pages++ {
			if pages > len(full)+3 {
				return dsc("versions-paging", "at rest, paging the %d versions with max-keys=%d does not terminate (marker %q / %q handed out again)", len(full), mk, km, vm)
			}
			d, r := c13List(st, "", "", mk, km, vm, has)
			if d == nil {
				return dsc("versions-paging", "at rest, a page of the version listing (max-keys=%d, key-marker %q, version-id-marker %q) answers %s", mk, km, vm, r)
			}
			got = append(got, c13Entries(d)...)
			if !d.IsTruncated {
				break
			}
			km, vm, has = d.NextKeyMarker, d.NextVersionIdMarker, true
		}
		if !entriesEq(got, full) {
			return dsc("versions-paging", "at rest, the pages of the version listing (max-keys=%d) give %d entries, the unpaged listing %d:\n got %v\nwant %v", mk, len(got), len(full), got, full)
		}
	}
	// ... and the order the concurrent uploads were stored in is the order they come back in: one more
	// version put on top of a key and removed again by its ID leaves the key reading what it read before
	seen := map[string]bool{}
	for _, e := range full {
		if seen[e.Key] {
			continue
		}
		seen[e.Key] = true
		obs := func() string {
			g := s3x.Do(st.Handler, &s3x.Req{Method: "GET", Path: "/bk0/" + e.Key})
			return fmt.Sprintf("%d %s %s", g.Status, md5hex(g.Body), g.Header.Get("x-amz-version-id"))
		}
		before := obs()
		p := put(st, "bk0", e.Key, []byte("one more version, removed again"))
		vid := p.Header.Get("x-amz-version-id")
		if p.Status != 200 || vid == "" {
			continue
		}
		if r := s3x.Do(st.Handler, &s3x.Req{Method: "DELETE", Path: "/bk0/" + e.Key, Query: s3x.Q("versionId", vid)}); r.Status != 204 {
			return dsc("versions-order", "at rest, deleting the version %s just put on %q answers %s", vid, e.Key, r)
		}
		if after := obs(); after != before {
			return dsc("versions-order", "at rest, %q read %s; after one more version was put on it and removed again by its ID it reads %s (status, md5, version)", e.Key, before, after)
		}
	}
	return nil
}

// ---- gate-controlled schedules ------------------------------------------------------------

// c07GatedSpec: a slow operation whose I/O is gated, and operations that run
// while it is held at a gate.
type c07GatedSpec struct {
	Slow   string `json:"slow"` // "uploader" (PUT whose body arrives slowly) | "reader" (GET whose download is slow)
	Size   int    `json:"size"`
	GateAt []int  `json:"gateAt"` // uploader: body offsets; reader: write indexes
	// Between[i] are the operations run (each to completion or until blocked) while the slow
	// operation waits at gate i
	Between [][]c07Op `json:"between"`
}

func c07Gated(cs c07Case) (ds []disc, evs []c07Ev, overlapped int) {
	r := c07Setup(cs)
	defer r.st.Close()
	g := cs.Gated
	// the object the slow reader downloads / the slow uploader overwrites
	initKind := "put"
	if cs.Versioned {
		initKind = "vput"
	}
	r.exec(90, 0, c07Op{K: initKind, Key: 0, Size: g.Size}, nil, s3x.DoOpts{})
	gates := make([]chan struct{}, len(g.GateAt))
	reached := make([]chan struct{}, len(g.GateAt))
	for i := range gates {
		gates[i] = make(chan struct{})
		reached[i] = make(chan struct{})
	}
	var gi int32
	hit := func(pos int) {
		i := int(atomic.LoadInt32(&gi))
		if i < len(g.GateAt) && pos >= g.GateAt[i] {
			atomic.AddInt32(&gi, 1)
			close(reached[i])
			<-gates[i]
		}
	}
	slowDone := make(chan struct{})
	slowKind := "put"
	if cs.Versioned {
		slowKind = "vput"
	}
	go func() {
		defer close(slowDone)
		if g.Slow == "uploader" {
			r.exec(91, 0, c07Op{K: slowKind, Key: 0, Size: g.Size + 7}, func(rq *s3x.Req) {
				rq.Frag = s3x.Frag{Mode: "n", N: 1024}
				rq.Gate = hit
			}, s3x.DoOpts{})
		} else {
			r.exec(91, 0, c07Op{K: "get", Key: 0}, nil, s3x.DoOpts{WGate: hit})
		}
	}()
	var pending sync.WaitGroup
	seq := 0
	for i := range g.GateAt {
		select {
		case <-reached[i]:
		case <-slowDone:
		case <-time.After(20 * time.Second):
			ds = append(ds, dsc("inconclusive:gate-not-reached", "the slow %s did not reach gate %d", g.Slow, i)...)
		}
		if i < len(g.Between) {
			for _, op := range g.Between[i] {
				seq++
				done := make(chan struct{})
				pending.Add(1)
				go func(seq int, op c07Op) {
					defer pending.Done()
					defer close(done)
					r.exec(92+seq%3, seq, op, nil, s3x.DoOpts{})
				}(seq, op)
				select {
				case <-done:
					overlapped++
				case <-time.After(150 * time.Millisecond):
					// blocked behind the slow operation (a backend may hold its lock while copying):
					// it stays pending and is awaited after all gates are open
				}
			}
		}
		close(gates[i])
	}
	finished := make(chan struct{})
	go func() { pending.Wait(); <-slowDone; close(finished) }()
	select {
	case <-finished:
	case <-time.After(60 * time.Second):
		ds = append(ds, dsc("did-not-complete", "with every gate open, the slow %s and the operations started meanwhile did not all complete within 60 s", g.Slow)...)
		return ds, r.evs, overlapped
	}
	for k := 0; k < cs.Keys; k++ {
		r.exec(99, k, c07Op{K: "get", Key: k}, nil, s3x.DoOpts{})
	}
	evs = r.evs
	if cs.Versioned {
		// with version deletions in play the per-key register model does not apply; the statement's
		// clause for versioned uploads does: every acknowledged upload got a distinct ID whose
		// content is exactly that upload (unless that very version was deleted by ID afterwards)
		for _, e := range evs {
			if e.Status == -1 {
				ds = append(ds, dsc("panic", "client %d op %d %s: %s", e.Client, e.Seq, e.Op.K, e.Note)...)
			}
			if e.Op.K != "vput" || e.Status != 200 {
				continue
			}
			if e.Note != "" {
				ds = append(ds, dsc("duplicate-version-id", "%s", e.Note)...)
			}
			if e.Version == "" {
				ds = append(ds, dsc("no-version-id", "versioned upload by client %d op %d got no version ID", e.Client, e.Seq)...)
				continue
			}
			if _, gone := r.deleted.Load(e.Version); gone {
				continue
			}
			gv := s3x.Do(r.st.Handler, &s3x.Req{Method: "GET", Path: "/bk0/" + c07Key(e.Op.Key), Query: s3x.Q("versionId", e.Version)})
			want, _ := c07Body(e.Client, e.Seq, e.Op.Size)
			if gv.Status != 200 || !bytes.Equal(gv.Body, want) {
				ds = append(ds, dsc("acknowledged-version-lost", "upload %s was acknowledged with version %s, which nobody deleted, but GET by that ID answers %d (%d bytes)", e.Wrote, e.Version, gv.Status, len(gv.Body))...)
			}
		}
		if len(ds) == 0 {
			ds = append(ds, c07VersionsPaged(r.st)...)
		}
		return
	}
	jd, _ := c07Judge(cs, evs)
	ds = append(ds, jd...)
	return
}

// ---- a multipart completion held at the storage boundary ------------------------------------

// c07MpuSpec: upload U of key "mp" holds parts 1..Parts; a CompleteMultipartUpload is started and
// held inside Backend.PutObject; while it is held the Rivals run (each to completion or until
// blocked); then the completion is released. Sequential specification of an upload's life: of all
// complete/abort requests at most one succeeds, and an acknowledged abort means the upload stored nothing.
type c07MpuSpec struct {
	Parts  int      `json:"parts"`
	Rivals []string `json:"rivals"` // "abort" | "complete" | "part" | "list"
}

func c07MpuGated(k backends.Kind, spec c07MpuSpec, versioned bool) (ds []disc, overlapped int) {
	hold := make(chan struct{})
	reached := make(chan struct{})
	var armed int32
	var once sync.Once
	st := backends.Must(k, backends.Options{PutHook: func(bucket, key string) {
		if key == "mp" && atomic.LoadInt32(&armed) == 1 {
			first := false
			once.Do(func() { first = true })
			if first {
				close(reached)
				<-hold
			}
		}
	}})
	defer st.Close()
	if err := ensureBucket(st, "bk0"); err != nil {
		panic(err)
	}
	fail := func(kind, f string, a ...interface{}) {
		ds = append(ds, disc{Kind: kind, Detail: fmt.Sprintf("backend=%s rivals=%v: ", k, spec.Rivals) + fmt.Sprintf(f, a...)})
	}
	if versioned {
		s3x.Do(st.Handler, &s3x.Req{Method: "PUT", Path: "/bk0", Query: s3x.Q("versioning", s3x.Bare), Body: []byte(`<VersioningConfiguration><Status>Enabled</Status></VersioningConfiguration>`)})
	}
	x := s3x.Do(st.Handler, &s3x.Req{Method: "POST", Path: "/bk0/mp", Query: s3x.Q("uploads", s3x.Bare)})
	var d s3x.InitiateDoc
	if x.Status != 200 || x.XML(&d) != nil {
		panic("harness: initiate: " + x.String())
	}
	var sb strings.Builder
	var want []byte
	sb.WriteString("<CompleteMultipartUpload>")
	for n := 1; n <= spec.Parts; n++ {
		body := []byte(fmt.Sprintf("part-%d-%s", n, strings.Repeat("x", n*100)))
		r := s3x.Do(st.Handler, &s3x.Req{Method: "PUT", Path: "/bk0/mp", Query: s3x.Q("partNumber", fmt.Sprint(n), "uploadId", d.UploadId), Body: body})
		if r.Status != 200 {
			panic("harness: part: " + r.String())
		}
		fmt.Fprintf(&sb, "<Part><PartNumber>%d</PartNumber><ETag>%s</ETag></Part>", n, xmlEsc(r.Header.Get("ETag")))
		want = append(want, body...)
	}
	sb.WriteString("</CompleteMultipartUpload>")
	completeBody := []byte(sb.String())
	type res struct {
		kind   string
		status int
	}
	var mu sync.Mutex
	var results []res
	do := func(kind string) {
		var r *s3x.Resp
		switch kind {
		case "complete":
			r = s3x.Do(st.Handler, &s3x.Req{Method: "POST", Path: "/bk0/mp", Query: s3x.Q("uploadId", d.UploadId), Body: completeBody})
		case "abort":
			r = s3x.Do(st.Handler, &s3x.Req{Method: "DELETE", Path: "/bk0/mp", Query: s3x.Q("uploadId", d.UploadId)})
		case "part":
			r = s3x.Do(st.Handler, &s3x.Req{Method: "PUT", Path: "/bk0/mp", Query: s3x.Q("partNumber", "1", "uploadId", d.UploadId), Body: []byte("late part")})
		default:
			r = s3x.Do(st.Handler, &s3x.Req{Method: "GET", Path: "/bk0/mp", Query: s3x.Q("uploadId", d.UploadId)})
		}
		st := r.Status
		if r.Panic != "" {
			st = -1
			fail("panic", "%s: %s at %s", kind, r.Panic, r.PanicSite)
		}
		mu.Lock()
		results = append(results, res{kind, st})
		mu.Unlock()
	}
	atomic.StoreInt32(&armed, 1)
	var wg sync.WaitGroup
	wg.Add(1)
	go func() { defer wg.Done(); do("complete") }()
	select {
	case <-reached:
	case <-time.After(20 * time.Second):
		return dsc("inconclusive:gate-not-reached", "the completion never reached Backend.PutObject"), 0
	}
	for _, rv := range spec.Rivals {
		done := make(chan struct{})
		wg.Add(1)
		go func(rv string) { defer wg.Done(); defer close(done); do(rv) }(rv)
		select {
		case <-done:
			overlapped++
		case <-time.After(150 * time.Millisecond):
		}
	}
	close(hold)
	fin := make(chan struct{})
	go func() { wg.Wait(); close(fin) }()
	select {
	case <-fin:
	case <-time.After(60 * time.Second):
		return append(ds, dsc("did-not-complete", "with the gate open, the completion and its rivals did not all return within 60 s")...), overlapped
	}
	completes, aborts := 0, 0
	for _, r := range results {
		if r.kind == "complete" && r.status == 200 {
			completes++
		}
		if r.kind == "abort" && r.status == 204 {
			aborts++
		}
	}
	g := s3x.Do(st.Handler, &s3x.Req{Method: "GET", Path: "/bk0/mp"})
	switch {
	case completes+aborts > 1:
		fail("upload-finished-twice", "one upload was finished %d times: %d successful completes and %d successful aborts (%v); no sequential order of these requests allows that", completes+aborts, completes, aborts, results)
	case completes+aborts == 0:
		fail("upload-never-finished", "neither the completion nor any rival finished the upload: %v", results)
	case aborts == 1 && g.Status != 404:
		fail("aborted-upload-stored", "the abort was acknowledged but the object exists (%d, %d bytes)", g.Status, len(g.Body))
	case completes == 1 && (g.Status != 200 || !bytes.Equal(g.Body, want)):
		fail("multipart-assembly", "the completed object reads %d with %d bytes, the parts concatenate to %d bytes", g.Status, len(g.Body), len(want))
	}
	if versioned && completes >= 1 {
		v := s3x.Do(st.Handler, &s3x.Req{Method: "GET", Path: "/bk0", Query: s3x.Q("versions", s3x.Bare, "prefix", "mp")})
		if doc, err := s3x.ParseVersions(v.Body); err == nil && len(doc.Entries) != 1 {
			fail("upload-stored-twice", "one multipart upload produced %d versions of the key", len(doc.Entries))
		}
	}
	return
}

// c07BucketGated: an upload into an (otherwise empty) bucket is held while its body arrives; meanwhile
// the bucket is deleted and created again. Whatever order explains the answers: an upload that is
// acknowledged after the bucket exists again is there afterwards (if the delete succeeded, the upload
// had not taken effect before it, so it took effect after the re-creation or not at all).
func c07BucketGated(k backends.Kind, gateAt int, recreate bool, viaCopy bool) (ds []disc) {
	st := backends.Must(k, backends.Options{})
	defer st.Close()
	for _, b := range []string{"bk0", "bk1"} {
		if err := ensureBucket(st, b); err != nil {
			panic(err)
		}
	}
	body, _ := c07Body(1, 1, 50000)
	put(st, "bk0", "src", body)
	reached, release := make(chan struct{}), make(chan struct{})
	var once sync.Once
	rq := &s3x.Req{Method: "PUT", Path: "/bk1/k", Body: body, Frag: s3x.Frag{Mode: "n", N: 4096}, Gate: func(off int) {
		if off >= gateAt {
			once.Do(func() { close(reached); <-release })
		}
	}}
	var up *s3x.Resp
	done := make(chan struct{})
	go func() { defer close(done); up = s3x.DoWith(st.Handler, rq, s3x.DoOpts{Timeout: 30 * time.Second}) }()
	select {
	case <-reached:
	case <-done:
		if os.Getenv("VERIF_TRACE") != "" {
			fmt.Fprintf(os.Stderr, "TRACE bucket-gated %s gate=%d: upload finished before the gate: %v\n", k, gateAt, up)
		}
		return dsc("inconclusive:gate-not-reached", "backend=%s: the upload finished without its body reaching offset %d", k, gateAt)
	case <-time.After(20 * time.Second):
		close(release)
		return dsc("inconclusive:gate-not-reached", "backend=%s: the upload never reached body offset %d", k, gateAt)
	}
	rivals := make(chan [2]int, 1)
	go func() {
		d := s3x.DoWith(st.Handler, &s3x.Req{Method: "DELETE", Path: "/bk1"}, s3x.DoOpts{Timeout: 30 * time.Second})
		c := 0
		if recreate {
			c = s3x.DoWith(st.Handler, &s3x.Req{Method: "PUT", Path: "/bk1"}, s3x.DoOpts{Timeout: 30 * time.Second}).Status
		}
		rivals <- [2]int{d.Status, c}
	}()
	var rv [2]int
	blocked := false
	select {
	case rv = <-rivals:
	case <-time.After(300 * time.Millisecond):
		blocked = true // the bucket operations wait for the upload: fine
	}
	close(release)
	<-done
	if blocked {
		rv = <-rivals
	}
	if up.Panic != "" {
		return dsc("panic", "backend=%s: upload: %s at %s", k, up.Panic, up.PanicSite)
	}
	g := get(st, "bk1", "k")
	if os.Getenv("VERIF_TRACE") != "" {
		fmt.Fprintf(os.Stderr, "TRACE bucket-gated %s gate=%d recreate=%v blocked=%v up=%d rivals=%v get=%d\n", k, gateAt, recreate, blocked, up.Status, rv, g.Status)
	}
	fail := func(kind, f string, a ...interface{}) {
		ds = append(ds, disc{Kind: kind, Detail: fmt.Sprintf("backend=%s gate=%d recreate=%v rivals-blocked=%v: upload answered %d, DELETE bucket %d, PUT bucket %d, then GET answers %d (%d bytes): ", k, gateAt, recreate, blocked, up.Status, rv[0], rv[1], g.Status, len(g.Body)) + fmt.Sprintf(f, a...)})
	}
	switch {
	case up.Status == 200 && !blocked && rv[0] == 204 && (!recreate || rv[1] == 200):
		// delete (and re-creation) completed inside the upload's interval
		if recreate && (g.Status != 200 || !bytes.Equal(g.Body, body)) {
			fail("acknowledged-upload-lost", "the bucket was deleted and created again while the upload was in flight; the upload was acknowledged afterwards but its object is not there")
		}
		if !recreate && g.Status == 200 {
			fail("object-in-deleted-bucket", "the bucket was deleted while the upload was in flight and never created again, yet the object reads back")
		}
		if !recreate && up.Status == 200 {
			fail("acknowledged-upload-lost", "the bucket was deleted (204) while the upload was in flight: the upload cannot have taken effect before the delete (the bucket was empty) nor after it (no bucket), but was acknowledged")
		}
	case up.Status == 200 && (g.Status != 200 || !bytes.Equal(g.Body, body)) && (blocked || rv[0] != 204):
		fail("acknowledged-upload-lost", "the bucket was not deleted, the upload was acknowledged, but its object does not read back")
	}
	return ds
}

// ---- plumbing -------------------------------------------------------------------------------

func c07Replay(check string, raw json.RawMessage) ([]disc, error) {
	var rep struct {
		Case    c07Case `json:"case"`
		History []c07Ev `json:"history"`
	}
	if err := json.Unmarshal(raw, &rep); err != nil {
		return nil, err
	}
	if check == "mpu-gated" {
		var mr struct {
			Backend   backends.Kind `json:"backend"`
			Spec      c07MpuSpec    `json:"spec"`
			Versioned bool          `json:"versioned"`
		}
		if err := json.Unmarshal(raw, &mr); err != nil {
			return nil, err
		}
		ds, _ := c07MpuGated(mr.Backend, mr.Spec, mr.Versioned)
		return c07Filter(ds), nil
	}
	if check == "bucket-gated" && rep.Case.Bucket != nil {
		return c07Classify(rep.Case, c07Filter(c07BucketGated(rep.Case.Backend, rep.Case.Bucket.GateAt, rep.Case.Bucket.Recreate, false))), nil
	}
	if check == "retried-complete" && rep.Case.Walk != nil {
		return c07RetriedComplete(rep.Case.Backend, rep.Case.Walk.Victim), nil
	}
	if check == "walk-vs-delete" && rep.Case.Walk != nil {
		return c07WalkVsDelete(rep.Case.Backend, *rep.Case.Walk), nil
	}
	if check == "gated" {
		ds, _, _ := c07Gated(rep.Case)
		return c07Classify(rep.Case, c07Filter(ds)), nil
	}
	if len(rep.History) > 0 {
		// schedule-dependent failure: the reproducible unit is the recorded history
		for i := range rep.History {
			e := &rep.History[i]
			e.bodyOK = e.Note == "" || strings.HasPrefix(e.Note, "version ID")
		}
		ds, _ := c07Judge(rep.Case, rep.History)
		return c07Classify(rep.Case, c07Filter(ds)), nil
	}
	ds, _, _ := c07Exec(rep.Case)
	return c07Classify(rep.Case, c07Filter(ds)), nil
}

func c07Filter(ds []disc) []disc {
	var out []disc
	for _, d := range ds {
		if !strings.HasPrefix(d.Kind, "inconclusive:") {
			out = append(out, d)
		}
	}
	return out
}

type c07Replayable struct {
	Case    c07Case `json:"case"`
	History []c07Ev `json:"history,omitempty"`
}

func TestC07(t *testing.T) {
	runProp(t, propDef{
		ID:    "C07",
		Level: "exploration",
		Rule: "cases = (backend, concurrent client programs | gated schedule); random: 2-16 client goroutines run put(self-describing unique body)/get/head/delete/copy/list (and versioned puts, concurrent part uploads) over 1-3 keys against the in-process handler, " +
			"every operation logged with invocation/return instants; oracles: every GET body is in full one written body with matching ETag/Content-Length, per-key history (copy = read(src) then write(dst)) linearizable against a register model (porcupine), " +
			"listed (key,ETag) written before the list returned, distinct version IDs whose content is that upload, completed multipart object = acknowledged parts, final reads join the history; gated: a slow uploader (body gated at drawn offsets) or slow reader (response writes gated) " +
			"is held while other operations run to completion, same oracles; a client paging through the listing while another deletes and adds keys between its pages (keys untouched during the walk are on exactly one page); plus the same workloads under a -race build; non-trivial = >= 2 overlapping operations of different clients on one key, one of them a write; distinct by (backend, programs)",
		Replay: c07Replay,
		Run:    c07Run,
	})
}

// known-finding classification: fs backends on a real directory overwrite in place
func c07Classify(cs c07Case, ds []disc) []disc {
	for i := range ds {
		if cs.Backend.IsDir() && (ds[i].Kind == "torn-read" || ds[i].Kind == "not-linearizable" || ds[i].Kind == "copy-failed") {
			ds[i].KF = "KF-C07-fs-inplace-overwrite"
		}
	}
	return ds
}

func c07GenOp(rt *rapid.T, keys int, maxSize int) c07Op {
	k := rapid.SampledFrom([]string{"put", "put", "put", "get", "get", "get", "head", "del", "mdel", "copy", "list", "apiread"}).Draw(rt, "kind")
	op := c07Op{K: k, Key: rapid.IntRange(0, keys-1).Draw(rt, "key")}
	switch k {
	case "put":
		op.Size = rapid.SampledFrom([]int{0, 10, 1000, 40000, maxSize}).Draw(rt, "size")
	case "copy", "mdel":
		op.Src = rapid.IntRange(0, keys-1).Draw(rt, "src")
	}
	return op
}

func c07Run(t *testing.T, c *evid.Collector) {
	kinds := kindsFromEnv(backends.All)
	record := func(check string, cs c07Case, ds []disc, evs []c07Ev, nt bool, src string) bool {
		inconclusive := false
		var real []disc
		for _, d := range ds {
			if strings.HasPrefix(d.Kind, "inconclusive:") {
				inconclusive = true
				c.Unjudged(d.Detail)
				continue
			}
			real = append(real, d)
		}
		labels := []string{"backend:" + string(cs.Backend), "src:" + src, "check:" + check}
		if nt {
			labels = append(labels, "overlapping-ops-on-one-key")
		}
		if inconclusive {
			labels = append(labels, "unjudged")
		}
		c.Case(evid.FP(check, mustJSON(cs)), nt, func() interface{} { return cs }, labels...)
		rp := c07Replayable{Case: cs}
		if len(real) > 0 && check != "gated" {
			rp.History = evs
		}
		return report(c, check, c07Classify(cs, real), rp)
	}
	c07RunMpu(t, c, kinds)
	c07RunBucket(c, kinds)
	nclients := evid.Scale(8, 16)
	rapidRun(t, "histories", evid.Scale(250, 5000), func(rt *rapid.T) {
		cs := c07Case{Backend: rapid.SampledFrom(kinds).Draw(rt, "backend"), Keys: rapid.IntRange(1, 3).Draw(rt, "keys")}
		mode := rapid.IntRange(0, 5).Draw(rt, "mode")
		cs.Versioned = mode == 0 && cs.Backend == backends.Mem
		cs.Multipart = mode == 1
		n := rapid.IntRange(2, nclients).Draw(rt, "clients")
		for ci := 0; ci < n; ci++ {
			var ops []c07Op
			m := rapid.IntRange(1, 8).Draw(rt, "nops")
			for i := 0; i < m; i++ {
				op := c07GenOp(rt, cs.Keys, 70000)
				if cs.Versioned && op.K == "put" {
					op.K = "vput"
				}
				if cs.Versioned && op.K == "copy" {
					op.K = "get"
				}
				if cs.Multipart {
					switch rapid.IntRange(0, 5).Draw(rt, "aspart") {
					case 0, 1, 2:
						op = c07Op{K: "part", Part: rapid.IntRange(1, 4).Draw(rt, "part"), Size: rapid.SampledFrom([]int{1, 100, 40000}).Draw(rt, "psize")}
					case 3:
						op = c07Op{K: rapid.SampledFrom([]string{"lparts", "lparts", "luploads", "badcomplete"}).Draw(rt, "mlist")}
					}
				}
				ops = append(ops, op)
			}
			cs.Clients = append(cs.Clients, ops)
		}
		ds, evs, overlapping := c07Exec(cs)
		if record("history", cs, ds, evs, overlapping, "random") {
			rt.Fatalf("C07 violated: %v", c07Filter(ds))
		}
	})
	rapidRun(t, "gated", evid.Scale(120, 2500), func(rt *rapid.T) {
		cs := c07Case{Backend: rapid.SampledFrom(kinds).Draw(rt, "backend"), Keys: 2}
		g := &c07GatedSpec{Slow: rapid.SampledFrom([]string{"uploader", "reader"}).Draw(rt, "slow"), Size: rapid.SampledFrom([]int{70000, 200000}).Draw(rt, "size")}
		ng := rapid.IntRange(1, 3).Draw(rt, "ngates")
		at := 0
		for i := 0; i < ng; i++ {
			if g.Slow == "uploader" {
				at += rapid.IntRange(1, g.Size/ng).Draw(rt, "offset")
			} else {
				at += rapid.IntRange(1, 2).Draw(rt, "write")
			}
			g.GateAt = append(g.GateAt, at)
			var ops []c07Op
			m := rapid.IntRange(1, 3).Draw(rt, "nbetween")
			for j := 0; j < m; j++ {
				op := c07GenOp(rt, 2, 50000)
				if rapid.IntRange(0, 2).Draw(rt, "samekey") > 0 {
					op.Key = 0
				}
				ops = append(ops, op)
			}
			g.Between = append(g.Between, ops)
		}
		if cs.Backend == backends.Mem && rapid.IntRange(0, 2).Draw(rt, "versioned") == 0 {
			cs.Versioned = true
			for i := range g.Between {
				for j := range g.Between[i] {
					switch g.Between[i][j].K {
					case "put":
						g.Between[i][j].K = "vput"
					case "copy", "del":
						if rapid.Bool().Draw(rt, "asdelver") {
							g.Between[i][j] = c07Op{K: "delver-all", Key: g.Between[i][j].Key}
						} else {
							g.Between[i][j].K = "get"
						}
					}
				}
			}
		}
		cs.Gated = g
		ds, evs, overlapped := c07Gated(cs)
		if record("gated", cs, ds, evs, overlapped > 0, "gated-"+g.Slow) {
			rt.Fatalf("C07 violated: %v", c07Filter(ds))
		}
	})
}

func c07RunBucket(c *evid.Collector, kinds []backends.Kind) {
	if evid.Shard() != 0 {
		return
	}
	for _, k := range kinds {
		for _, route := range []string{"bucket", "colliding-key"} {
			if (route == "bucket" && k.IsSingle()) || (route == "colliding-key" && !k.IsFs()) {
				continue
			}
			cs := c07Case{Backend: k, Keys: 1, Walk: &c07WalkSpec{Victim: route}} // (the route travels in the walk spec)
			c.Case(evid.FP("retried-complete", mustJSON(cs)), true, func() interface{} { return cs }, "backend:"+string(k), "check:retried-complete", "src:fixed")
			report(c, "retried-complete", c07RetriedComplete(k, route), c07Replayable{Case: cs})
		}
	}
	for _, k := range kinds {
		for _, v2 := range []bool{false, true} {
			for _, victim := range []string{"none", "last-of-page", "next", "first"} {
				for _, max := range []int{1, 2, 3} {
					spec := c07WalkSpec{V2: v2, Victim: victim, Max: max}
					cs := c07Case{Backend: k, Keys: 6, Walk: &spec}
					c.Case(evid.FP("walk-vs-delete", mustJSON(cs)), victim != "none", func() interface{} { return cs }, "backend:"+string(k), "check:walk-vs-delete", "src:fixed")
					report(c, "walk-vs-delete", c07WalkVsDelete(k, spec), c07Replayable{Case: cs})
				}
			}
		}
	}
	for _, k := range kinds {
		if k.IsSingle() {
			continue
		}
		for _, gate := range []int{1, 25000, 49152} {
			for _, recreate := range []bool{true, false} {
				ds := c07BucketGated(k, gate, recreate, false)
				cs := c07Case{Backend: k, Keys: 1, Bucket: &c07BucketSpec{GateAt: gate, Recreate: recreate}}
				var real []disc
				for _, d := range ds {
					if strings.HasPrefix(d.Kind, "inconclusive:") {
						c.Unjudged(d.Detail)
						continue
					}
					real = append(real, d)
				}
				c.Case(evid.FP("bucket-gated", mustJSON(cs)), true, func() interface{} { return cs }, "backend:"+string(k), "check:bucket-gated", "src:fixed")
				report(c, "bucket-gated", c07Classify(cs, real), c07Replayable{Case: cs})
			}
		}
	}
}

func c07RunMpu(t *testing.T, c *evid.Collector, kinds []backends.Kind) {
	rapidRun(t, "mpu-gated", evid.Scale(40, 1500), func(rt *rapid.T) {
		k := rapid.SampledFrom(kinds).Draw(rt, "backend")
		spec := c07MpuSpec{Parts: rapid.IntRange(1, 3).Draw(rt, "parts")}
		n := rapid.IntRange(1, 3).Draw(rt, "nrivals")
		for i := 0; i < n; i++ {
			spec.Rivals = append(spec.Rivals, rapid.SampledFrom([]string{"abort", "complete", "complete", "part", "list"}).Draw(rt, "rival"))
		}
		versioned := k == backends.Mem && rapid.Bool().Draw(rt, "versioned")
		ds, overlapped := c07MpuGated(k, spec, versioned)
		cs := map[string]interface{}{"backend": k, "spec": spec, "versioned": versioned}
		var real []disc
		for _, d := range ds {
			if strings.HasPrefix(d.Kind, "inconclusive:") {
				c.Unjudged(d.Detail)
				continue
			}
			real = append(real, d)
		}
		c.Case(evid.FP("mpu-gated", mustJSON(cs)), true, func() interface{} { return cs }, "check:mpu-gated", "backend:"+string(k), fmt.Sprintf("rivals-finished-while-held:%d", overlapped))
		if report(c, "mpu-gated", real, cs) {
			rt.Fatalf("C07 violated: %v", real)
		}
	})
}

// TestC07Race runs concurrent workloads under the race detector (bin/check builds
// this test with -race and scans the output for DATA RACE reports).
func TestC07Race(t *testing.T) {
	if os.Getenv("VERIF_OUT") == "" {
		t.Skip("driver only")
	}
	c := evid.New("C07", "exploration", "race-detector build of the concurrent workloads")
	defer c.Finish()
	kinds := kindsFromEnv(backends.All)
	// clients that name their bucket in the Host header share the server's routing front end
	for _, m := range []c16Case{c16Modes[0], c16Modes[2], c16Modes[3], c16Modes[10]} {
		cs := c07Case{Backend: backends.Mem, Keys: 1}
		c.Case(evid.FP("race-host-style", mustJSON(m)), true, func() interface{} { return m }, "check:race-build-host-style")
		report(c, "host-style-race-build", c16Stress(m, 8, evid.Scale(150, 1500)), c07Replayable{Case: cs})
	}
	deadline := time.Now().Add(time.Duration(evid.Scale(15, 100)) * time.Second)
	seed := uint64(evid.Seed())
	n := 0
	for time.Now().Before(deadline) {
		for _, k := range kinds {
			n++
			seed = seed*6364136223846793005 + 1442695040888963407
			cs := c07Case{Backend: k, Keys: 2, Versioned: k == backends.Mem && n%2 == 0, Multipart: n%3 == 0}
			for ci := 0; ci < 8; ci++ {
				var ops []c07Op
				for i := 0; i < 6; i++ {
					seed = seed*6364136223846793005 + 1442695040888963407
					kindsOf := []string{"put", "get", "head", "del", "copy", "list", "put", "mdel", "apiread"}
					op := c07Op{K: kindsOf[(seed>>33)%9], Key: int((seed >> 40) % 2), Src: int((seed >> 45) % 2), Size: int((seed >> 20) % 5000)}
					if cs.Versioned && op.K == "put" {
						op.K = "vput"
					}
					if cs.Versioned && op.K == "copy" {
						op.K = "get"
					}
					if cs.Multipart && i%2 == 0 {
						op = c07Op{K: "part", Part: int((seed>>50)%3) + 1, Size: 100}
					} else if cs.Multipart && (seed>>55)%3 == 0 {
						op = c07Op{K: []string{"lparts", "luploads", "badcomplete"}[(seed>>58)%3]}
					}
					ops = append(ops, op)
				}
				cs.Clients = append(cs.Clients, ops)
			}
			ds, evs, ov := c07Exec(cs)
			c.Case(evid.FP("race", mustJSON(cs)), ov, func() interface{} { return cs }, "check:race-build", "backend:"+string(k))
			report(c, "history-race-build", c07Classify(cs, c07Filter(ds)), c07Replayable{Case: cs, History: evs})
		}
	}
}

//go:build verif

package props

import (
	"encoding/json"
	"fmt"
	"sort"
	"testing"

	"verif/harness/backends"
	"verif/harness/evid"
	"verif/harness/prog"

	"pgregory.net/rapid"
)

// C06 — completing a multipart upload stores exactly the listed parts, once, or nothing.

var c06Keys = []string{"m0", "m1"}

func c06Exec(cs progCase) (ds []disc, labels map[string]bool) {
	labels = map[string]bool{}
	st := backends.Must(cs.Backend, cs.Opts)
	defer st.Close()
	r := prog.NewRunner(st)
	r.NoTick = cs.NoTick
	if !st.Kind.IsSingle() {
		if d := r.Step(prog.Op{K: "mkbucket", B: "bk0"}); len(d) > 0 {
			return d, labels
		}
	}
	invalidSeen := map[*prog.MUpload]bool{}
	for i, op := range cs.Ops {
		// labels from the model state before the op
		if op.K == "complete" {
			if u := r.Upload(op.Ref); u != nil && !u.Gone {
				valid := len(op.Parts) > 0
				overwritten := false
				for j, p := range op.Parts {
					mp := u.Parts[p.N]
					if mp == nil || p.Tag != "" || (j > 0 && op.Parts[j-1].N >= p.N) {
						valid = false
					}
					if mp != nil && len(mp.Prev) > 0 {
						overwritten = true
					}
				}
				if valid {
					if overwritten {
						labels["complete-after-overwritten-part"] = true
					}
					if len(op.Parts) < len(u.Parts) {
						labels["complete-with-proper-subset"] = true
					}
					if invalidSeen[u] {
						labels["valid-complete-after-invalid"] = true
					}
					same := 0
					for _, o := range r.M.Uploads {
						if o.B == u.B && o.Key == u.Key {
							same++
						}
					}
					if same >= 2 {
						labels["several-uploads-of-one-key"] = true
					}
				} else {
					invalidSeen[u] = true
					labels["invalid-complete"] = true
				}
			}
		}
		sd := r.Step(op)
		// long programs (the many-parts scenarios): the full invariant only after every 97th
		// part upload, and after everything that is not a part upload
		sparse := len(cs.Ops) > 300 && op.K == "part" && i%97 != 0
		if len(sd) == 0 && !sparse {
			sd = r.Invariant(c06Keys)
		}
		if len(sd) == 0 && !sparse {
			for _, u := range r.M.Uploads {
				if d := r.CheckUpload(u); len(d) > 0 {
					sd = append(sd, d...)
					break
				}
			}
		}
		if len(sd) > 0 {
			for j := range sd {
				sd[j].Detail = fmt.Sprintf("step %d: %s", i, sd[j].Detail)
			}
			return sd, labels
		}
	}
	return nil, labels
}

func c06Nontrivial(l map[string]bool) bool {
	return l["complete-after-overwritten-part"] || l["complete-with-proper-subset"] || l["valid-complete-after-invalid"] || l["several-uploads-of-one-key"]
}

func c06Replay(check string, raw json.RawMessage) ([]disc, error) {
	var cs progCase
	if err := json.Unmarshal(raw, &cs); err != nil {
		return nil, err
	}
	ds, _ := c06Exec(cs)
	return ds, nil
}

func TestC06(t *testing.T) {
	runProp(t, propDef{
		ID:    "C06",
		Level: "exploration",
		Rule: "cases = (backend, multipart program); rapid programs over keys {m0,m1} with up to 4 concurrent uploads (several of the same key): initiate(meta), upload-part(n in {1,2,3,5,100,9999,10000} or random 1..10000, bodies 1 B..64 KiB, re-uploads), " +
			"complete(list in {all ascending, ascending subset, permutation, unknown number, stale ETag, wrong ETag}), abort, put, get; after every step GET of both keys and ListParts of every upload ever created are compared with the model; " +
			"non-trivial = a valid complete after an overwritten part, or with a proper subset, or after an invalid complete of the same upload, or with >= 2 uploads of one key; distinct by (backend, program)",
		Replay: c06Replay,
		Run:    c06Run,
	})
}

type c06Shadow struct {
	parts []map[int]bool
	gone  []bool
}

func c06GenProgram(rt *rapid.T, maxBody int) []prog.Op {
	var ops []prog.Op
	sh := &c06Shadow{}
	n := rapid.IntRange(4, 30).Draw(rt, "n")
	partNums := []int{1, 2, 3, 5, 100, 9999, 10000}
	for i := 0; i < n; i++ {
		kind := rapid.SampledFrom([]string{"init", "part", "part", "part", "part", "complete", "complete", "abort", "put", "get", "mkbucket"}).Draw(rt, "kind")
		if len(sh.parts) == 0 || (len(sh.parts) < 4 && i < 3) {
			kind = "init"
		}
		switch kind {
		case "mkbucket":
			// a request to create the bucket the uploads live in: refused (it exists), and nothing
			// that is pending in it is touched
			if rapid.IntRange(0, 2).Draw(rt, "domk") == 0 {
				ops = append(ops, prog.Op{K: "mkbucket", B: "bk0"})
			}
		case "init":
			if len(sh.parts) >= 4 {
				continue
			}
			op := prog.Op{K: "init", B: "bk0", Key: rapid.SampledFrom(c06Keys).Draw(rt, "k")}
			if rapid.Bool().Draw(rt, "meta") {
				op.Meta = [][2]string{{"X-Amz-Meta-Up", fmt.Sprintf("u%d", len(sh.parts))}, {"Content-Type", "application/x-up"}}
			}
			ops = append(ops, op)
			sh.parts = append(sh.parts, map[int]bool{})
			sh.gone = append(sh.gone, false)
		case "part":
			u := rapid.IntRange(0, len(sh.parts)-1).Draw(rt, "u")
			if sh.gone[u] && rapid.IntRange(0, 3).Draw(rt, "skipgone") > 0 {
				u = (u + 1) % len(sh.parts)
			}
			pn := rapid.SampledFrom(partNums).Draw(rt, "pn")
			if rapid.IntRange(0, 2).Draw(rt, "low") > 0 {
				pn = rapid.IntRange(1, 3).Draw(rt, "pnlow")
			} else if rapid.IntRange(0, 5).Draw(rt, "rnd") == 0 {
				pn = rapid.IntRange(1, 10000).Draw(rt, "pnr")
			}
			size := rapid.IntRange(1, 40).Draw(rt, "size")
			if rapid.IntRange(0, 9).Draw(rt, "big") == 0 {
				size = rapid.IntRange(1000, maxBody).Draw(rt, "bigsize")
			}
			body := prog.Pattern(size, rapid.Uint64Range(0, 1<<20).Draw(rt, "seed"))
			if rapid.IntRange(0, 7).Draw(rt, "baddigest") == 0 {
				// refused (wrong Content-MD5): whatever the upload holds for that number stays
				ops = append(ops, prog.Op{K: "part", Ref: u, PartN: pn, Body: body, Via: "bad-md5"})
				continue
			}
			ops = append(ops, prog.Op{K: "part", Ref: u, PartN: pn, Body: body})
			if !sh.gone[u] {
				sh.parts[u][pn] = true
			}
		case "complete":
			u := rapid.IntRange(0, len(sh.parts)-1).Draw(rt, "u")
			for tries := 0; tries < 3 && (sh.gone[u] || len(sh.parts[u]) == 0); tries++ {
				u = (u + 1) % len(sh.parts)
			}
			var have []int
			for pn := range sh.parts[u] {
				have = append(have, pn)
			}
			sort.Ints(have)
			var list []prog.Part
			mode := rapid.SampledFrom([]string{"all", "all", "all", "subset", "subset", "subset", "perm", "unknown", "stale", "wrong"}).Draw(rt, "mode")
			for _, pn := range have {
				list = append(list, prog.Part{N: pn})
			}
			switch mode {
			case "subset":
				var sub []prog.Part
				for _, p := range list {
					if rapid.Bool().Draw(rt, "keep") {
						sub = append(sub, p)
					}
				}
				if len(sub) == 0 && len(list) > 0 {
					sub = list[:1]
				}
				list = sub
			case "perm":
				if len(list) >= 2 {
					i := rapid.IntRange(0, len(list)-2).Draw(rt, "swap")
					list[i], list[i+1] = list[i+1], list[i]
				}
			case "unknown":
				extra := rapid.SampledFrom([]int{4, 6, 7, 9998, 101}).Draw(rt, "extra")
				if !sh.parts[u][extra] { // duplicate numbers are outside the statement (left to C09)
					list = append(list, prog.Part{N: extra})
				}
				sort.Slice(list, func(a, b int) bool { return list[a].N < list[b].N })
			case "stale", "wrong":
				if len(list) > 0 {
					i := rapid.IntRange(0, len(list)-1).Draw(rt, "which")
					list[i].Tag = mode
				}
			}
			ops = append(ops, prog.Op{K: "complete", Ref: u, Parts: list})
			// the shadow does not know whether the complete is accepted; a valid one ends the upload
			valid := len(list) > 0
			for i, p := range list {
				if !sh.parts[u][p.N] || p.Tag == "wrong" || (i > 0 && list[i-1].N >= p.N) {
					valid = false
				}
			}
			if valid && mode != "stale" {
				sh.gone[u] = true
			}
		case "abort":
			u := rapid.IntRange(0, len(sh.parts)-1).Draw(rt, "u")
			ops = append(ops, prog.Op{K: "abort", Ref: u})
			sh.gone[u] = true
		case "put":
			ops = append(ops, prog.Op{K: "put", B: "bk0", Key: rapid.SampledFrom(c06Keys).Draw(rt, "k"), Body: genBody(rt, "body"),
				Meta: [][2]string{{"X-Amz-Meta-Plain", "p"}}})
		case "get":
			ops = append(ops, prog.Op{K: "get", B: "bk0", Key: rapid.SampledFrom(c06Keys).Draw(rt, "k")})
		}
	}
	return ops
}

func c06Run(t *testing.T, c *evid.Collector) {
	kinds := kindsFromEnv(backends.All)
	record := func(cs progCase, ds []disc, labels map[string]bool, src string) bool {
		ls := []string{"backend:" + string(cs.Backend), "src:" + src}
		for l := range labels {
			ls = append(ls, l)
		}
		c.Case(evid.FP(mustJSON(cs)), c06Nontrivial(labels), func() interface{} {
			s := cs
			s.Ops = append([]prog.Op(nil), cs.Ops...)
			for i := range s.Ops {
				if len(s.Ops[i].Body) > 48 {
					s.Ops[i].Body = s.Ops[i].Body[:48]
				}
			}
			return s
		}, ls...)
		return report(c, "multipart", ds, cs)
	}
	// fixed scenarios on every backend (ignore the seed)
	if evid.Shard() == 0 {
		b := func(s string) []byte { return []byte(s) }
		init0 := prog.Op{K: "init", B: "bk0", Key: "m0", Meta: [][2]string{{"X-Amz-Meta-Up", "yes"}}}
		initAgain := prog.Op{K: "init", B: "bk0", Key: "m0", Meta: [][2]string{{"X-Amz-Meta-Up", "corrected"}, {"Content-Type", "application/json"}}}
		for _, k := range kinds {
			scen := [][]prog.Op{
				{init0, {K: "part", Ref: 0, PartN: 1, Body: b("aaa")}, {K: "part", Ref: 0, PartN: 2, Body: b("bb")}, {K: "complete", Ref: 0, Parts: []prog.Part{{N: 1}, {N: 2}}}, {K: "get", B: "bk0", Key: "m0"}, {K: "complete", Ref: 0, Parts: []prog.Part{{N: 1}}}, {K: "abort", Ref: 0}},
				{init0, {K: "part", Ref: 0, PartN: 1, Body: b("aaa")}, {K: "part", Ref: 0, PartN: 1, Body: b("AAAA")}, {K: "part", Ref: 0, PartN: 10000, Body: b("z")}, {K: "complete", Ref: 0, Parts: []prog.Part{{N: 1, Tag: "stale"}, {N: 10000}}}, {K: "complete", Ref: 0, Parts: []prog.Part{{N: 1}, {N: 10000}}}},
				{{K: "put", B: "bk0", Key: "m0", Body: b("old")}, init0, {K: "part", Ref: 0, PartN: 2, Body: b("two")}, {K: "part", Ref: 0, PartN: 5, Body: b("five")}, {K: "complete", Ref: 0, Parts: []prog.Part{{N: 5}, {N: 2}}}, {K: "complete", Ref: 0, Parts: []prog.Part{{N: 2}, {N: 3}}}, {K: "complete", Ref: 0, Parts: []prog.Part{{N: 2, Tag: "wrong"}}}, {K: "abort", Ref: 0}, {K: "get", B: "bk0", Key: "m0"}},
				{init0, init0, {K: "part", Ref: 0, PartN: 1, Body: b("first upload")}, {K: "part", Ref: 1, PartN: 1, Body: b("second upload")}, {K: "complete", Ref: 1, Parts: []prog.Part{{N: 1}}}, {K: "complete", Ref: 0, Parts: []prog.Part{{N: 1}}}},
				{init0, {K: "part", Ref: 0, PartN: 1, Body: b("the good part one")}, {K: "part", Ref: 0, PartN: 1, Body: b("corrupted on the way"), Via: "bad-md5"}, {K: "part", Ref: 0, PartN: 2, Body: b("never accepted"), Via: "bad-md5"}, {K: "complete", Ref: 0, Parts: []prog.Part{{N: 1}, {N: 2}}}, {K: "complete", Ref: 0, Parts: []prog.Part{{N: 1}}}, {K: "get", B: "bk0", Key: "m0"}},
				{init0, {K: "part", Ref: 0, PartN: 0, Body: b("x")}, {K: "part", Ref: 0, PartN: 10001, Body: b("x")}, {K: "part", Ref: 0, PartN: 3, Body: b("x")}, {K: "complete", Ref: 0, Parts: []prog.Part{{N: 3}}}, {K: "part", Ref: 0, PartN: 3, Body: b("late")}},
				// the same bytes uploaded again under other metadata (to correct a header, say): the object is
				// the one this upload was initiated as - after a multipart upload and after a plain one
				{init0, {K: "part", Ref: 0, PartN: 1, Body: b("the same bytes")}, {K: "complete", Ref: 0, Parts: []prog.Part{{N: 1}}}, initAgain, {K: "part", Ref: 1, PartN: 1, Body: b("the same bytes")}, {K: "complete", Ref: 1, Parts: []prog.Part{{N: 1}}}, {K: "get", B: "bk0", Key: "m0"},
					initAgain, {K: "part", Ref: 2, PartN: 4, Body: b("the same")}, {K: "part", Ref: 2, PartN: 9, Body: b(" bytes")}, init0, {K: "complete", Ref: 2, Parts: []prog.Part{{N: 4}, {N: 9}}}, {K: "part", Ref: 3, PartN: 1, Body: b("the same bytes")}, {K: "complete", Ref: 3, Parts: []prog.Part{{N: 1}}}},
				{{K: "put", B: "bk0", Key: "m0", Body: b("the same bytes"), Meta: [][2]string{{"X-Amz-Meta-Up", "plain"}, {"Content-Type", "text/plain"}}}, initAgain, {K: "part", Ref: 0, PartN: 1, Body: b("the same bytes")}, {K: "complete", Ref: 0, Parts: []prog.Part{{N: 1}}}, {K: "get", B: "bk0", Key: "m0"}},
			}
			{
				// upload IDs are issued by one counter per server: after eight finished uploads the
				// next two of one key have IDs of different length ("9", "10"); both stay usable
				var many []prog.Op
				for j := 0; j < 8; j++ {
					many = append(many, prog.Op{K: "init", B: "bk0", Key: "m1"})
					if j%2 == 0 {
						many = append(many, prog.Op{K: "abort", Ref: j})
					} else {
						many = append(many, prog.Op{K: "part", Ref: j, PartN: 1, Body: b("x")}, prog.Op{K: "complete", Ref: j, Parts: []prog.Part{{N: 1}}})
					}
				}
				many = append(many, init0, init0,
					prog.Op{K: "part", Ref: 8, PartN: 7, Body: b("ninth-7")}, prog.Op{K: "part", Ref: 9, PartN: 7, Body: b("tenth-7")}, prog.Op{K: "part", Ref: 9, PartN: 2, Body: b("tenth-2")},
					prog.Op{K: "part", Ref: 8, PartN: 7, Body: b("ninth-7 again")}, prog.Op{K: "complete", Ref: 8, Parts: []prog.Part{{N: 7, Tag: "stale"}}},
					prog.Op{K: "complete", Ref: 9, Parts: []prog.Part{{N: 2}, {N: 7}}}, prog.Op{K: "get", B: "bk0", Key: "m0"},
					prog.Op{K: "complete", Ref: 8, Parts: []prog.Part{{N: 7}}}, prog.Op{K: "get", B: "bk0", Key: "m0"}, prog.Op{K: "abort", Ref: 9})
				scen = append(scen, many)
			}
			if k == backends.Mem || k == backends.MultiMem || (evid.Thorough() && k == backends.Bolt) {
				// more parts than any listing page holds (1000) and, thorough, the most an upload
				// can have (10000): two uploads of the key with the same part numbers (with gaps),
				// every 7th part re-uploaded; one is completed with all parts, the other with every
				// other one
				for _, n := range []int{1001, evid.Scale(0, 10000)} {
					if n == 0 {
						continue
					}
					step := 10000 / n
					many := []prog.Op{{K: "put", B: "bk0", Key: "m0", Body: b("previous contents")}, init0, init0}
					var all, other []prog.Part
					for j := 1; j <= n; j++ {
						pn := j * step
						for ref := 0; ref < 2; ref++ {
							many = append(many, prog.Op{K: "part", Ref: ref, PartN: pn, Body: b(fmt.Sprintf("<%d.%d>", ref, pn))})
							if (j+ref)%7 == 0 {
								many = append(many, prog.Op{K: "part", Ref: ref, PartN: pn, Body: b(fmt.Sprintf("<%d.%d again>", ref, pn))})
							}
						}
						all = append(all, prog.Part{N: pn})
						if j%2 == 0 {
							other = append(other, prog.Part{N: pn})
						}
					}
					many = append(many, prog.Op{K: "complete", Ref: 0, Parts: all}, prog.Op{K: "get", B: "bk0", Key: "m0"},
						prog.Op{K: "complete", Ref: 1, Parts: other}, prog.Op{K: "get", B: "bk0", Key: "m0"})
					scen = append(scen, many)
				}
			}
			for si, ops := range scen {
				for _, noTick := range []bool{false, true} {
					if noTick && len(ops) > 300 && si%2 == 1 {
						continue
					}
					cs := progCase{Backend: k, Ops: ops, NoTick: noTick}
					ds, labels := c06Exec(cs)
					record(cs, ds, labels, "fixed")
				}
			}
		}
	}
	rapidRun(t, "random", evid.Scale(1500, 30000), func(rt *rapid.T) {
		k := rapid.SampledFrom(kinds).Draw(rt, "backend")
		// every third program runs with the server's clock standing still (a fixed or coarse time source:
		// all parts and re-uploads carry the same time stamp)
		cs := progCase{Backend: k, Ops: c06GenProgram(rt, evid.Scale(65536, 1<<20)), NoTick: rapid.IntRange(0, 2).Draw(rt, "notick") == 0}
		ds, labels := c06Exec(cs)
		if record(cs, ds, labels, "random") {
			rt.Fatalf("C06 violated: %v", ds)
		}
	})
}

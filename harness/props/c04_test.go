//go:build verif

package props

import (
	"encoding/base64"
	"encoding/json"
	"fmt"
	"net/url"
	"sort"
	"strings"
	"testing"

	"verif/harness/backends"
	"verif/harness/evid"
	"verif/harness/oracle"
	"verif/harness/s3x"

	"pgregory.net/rapid"
)

// C04 — paginated listing visits every key exactly once and terminates.

type c04Case struct {
	Backend backends.Kind    `json:"backend"`
	Opts    backends.Options `json:"opts,omitempty"`
	Keys    []string         `json:"keys"`
	Marked  []string         `json:"marked,omitempty"` // delete-marked keys (mem, versioning enabled)
	Prefix  string           `json:"prefix"`
	Delim   string           `json:"delim"`
	MaxKeys int              `json:"maxKeys"`
	API     string           `json:"api"` // v1 | v2
	// Start: explicit start marker (v1 marker / v2 start-after); HasStart distinguishes "" from absent
	Start    string `json:"start,omitempty"`
	HasStart bool   `json:"hasStart,omitempty"`
	// RepeatStart: V2 follow-up requests carry start-after again next to the continuation token
	// (what the AWS SDK paginators do); the token must win.
	RepeatStart bool `json:"repeatStart,omitempty"`
	// Enc: the requests carry encoding-type=url (what boto3 and the aws cli send); a server that
	// honours it says so in the answer, whose keys and markers the client then decodes
	Enc bool `json:"enc,omitempty"`
}

type c04Page struct {
	entries   []string // merged, tagged "c:"/"p:"
	truncated bool
	next      string // continuation for the next request ("" = none available)
	nextKind  string
}

func c04Fetch(st *backends.Stack, cs c04Case, cont string, contKind string, first bool) (*c04Page, *s3x.Resp, []disc) {
	q := []string{"max-keys", fmt.Sprint(cs.MaxKeys)}
	if cs.Prefix != "" {
		q = append(q, "prefix", cs.Prefix)
	}
	if cs.Delim != "" {
		q = append(q, "delimiter", cs.Delim)
	}
	if cs.API == "v2" {
		q = append(q, "list-type", "2")
	}
	switch {
	case !first && contKind == "marker":
		q = append(q, "marker", cont)
	case !first && contKind == "token":
		q = append(q, "continuation-token", cont)
		if cs.RepeatStart && cs.HasStart {
			q = append(q, "start-after", cs.Start)
		}
	case first && cs.HasStart && cs.API == "v1":
		q = append(q, "marker", cs.Start)
	case first && cs.HasStart:
		q = append(q, "start-after", cs.Start)
	}
	if cs.Enc {
		q = append(q, "encoding-type", "url")
	}
	doc, r := listDoc(st, "bk0", q...)
	if doc == nil {
		if r.Panic != "" {
			return nil, r, dsc("panic", "%s at %s", r.Panic, r.PanicSite)
		}
		return nil, r, dsc("page-failed", "page request %v answered %s", q, r)
	}
	if doc.EncodingType == "url" {
		dec := func(s string) string {
			if u, err := url.QueryUnescape(s); err == nil {
				return u
			}
			return s
		}
		for i := range doc.Contents {
			doc.Contents[i].Key = dec(doc.Contents[i].Key)
		}
		for i := range doc.CommonPrefixes {
			doc.CommonPrefixes[i].Prefix = dec(doc.CommonPrefixes[i].Prefix)
		}
		doc.NextMarker = dec(doc.NextMarker) // the continuation token is opaque: sent back as it came
	}
	pg := &c04Page{truncated: doc.IsTruncated}
	var ds []disc
	var cks, pks []string
	for _, c := range doc.Contents {
		cks = append(cks, c.Key)
	}
	pks = doc.Prefixes()
	if !sort.StringsAreSorted(cks) {
		ds = append(ds, dsc("page-order", "Contents of a page not ascending: %q", cks)...)
	}
	type e struct{ k, t string }
	var es []e
	for _, k := range cks {
		es = append(es, e{k, "c:"})
	}
	for _, p := range pks {
		es = append(es, e{p, "p:"})
	}
	sort.SliceStable(es, func(i, j int) bool { return es[i].k < es[j].k })
	for _, x := range es {
		pg.entries = append(pg.entries, x.t+x.k)
	}
	if len(pg.entries) > 1000 {
		ds = append(ds, dsc("page-over-1000", "page has %d entries although max-keys is clamped to 1000", len(pg.entries))...)
	}
	if len(pg.entries) > cs.MaxKeys {
		ds = append(ds, dsc("page-too-long", "page has %d entries (contents+prefixes), max-keys=%d", len(pg.entries), cs.MaxKeys)...)
	}
	if cs.API == "v2" {
		if doc.KeyCount != nil && int(*doc.KeyCount) != len(pg.entries) {
			ds = append(ds, dsc("keycount", "KeyCount=%d but page has %d entries", *doc.KeyCount, len(pg.entries))...)
		}
		if doc.NextContinuationToken != "" {
			pg.next, pg.nextKind = doc.NextContinuationToken, "token"
		}
	} else {
		switch {
		case doc.NextMarker != "":
			pg.next, pg.nextKind = doc.NextMarker, "marker"
		case len(cks) > 0 && cs.Delim == "":
			// "If the response does not include the NextMarker and it is truncated, you can use
			// the value of the last Key in the response as the marker"
			pg.next, pg.nextKind = cks[len(cks)-1], "marker"
		case len(pg.entries) > 0:
			last := pg.entries[len(pg.entries)-1][2:]
			pg.next, pg.nextKind = last, "marker"
		}
	}
	return pg, r, ds
}

// c04Walk follows the continuation the server hands back.
func c04Walk(st *backends.Stack, cs c04Case, total int) (got []string, pages int, ds []disc) {
	cont, kind := "", ""
	first := true
	limit := total + 3
	for {
		pg, _, pd := c04Fetch(st, cs, cont, kind, first)
		ds = append(ds, pd...)
		if pg == nil {
			return got, pages, ds
		}
		pages++
		got = append(got, pg.entries...)
		if !pg.truncated {
			return got, pages, ds
		}
		if pg.next == "" {
			ds = append(ds, dsc("no-continuation", "page %d is truncated but offers no continuation (no NextMarker/last key/NextContinuationToken)", pages)...)
			return got, pages, ds
		}
		if pages > limit {
			ds = append(ds, dsc("no-termination", "walk did not terminate within %d pages for %d entries", limit, total)...)
			return got, pages, ds
		}
		cont, kind, first = pg.next, pg.nextKind, false
	}
}

func c04Check(st *backends.Stack, cs c04Case) (ds []disc, pages int, want []string, straddle bool) {
	full := oracle.List(cs.Keys, cs.Prefix, cs.Delim)
	all := full.Entries()
	fail := func(kind, f string, a ...interface{}) {
		ds = append(ds, disc{Kind: kind, Detail: fmt.Sprintf("backend=%s keys=%q marked=%q prefix=%q delim=%q max-keys=%d api=%s start=%q/%v: ", st.Kind, cs.Keys, cs.Marked, cs.Prefix, cs.Delim, cs.MaxKeys, cs.API, cs.Start, cs.HasStart) + fmt.Sprintf(f, a...)})
	}
	got, pages, wd := c04Walk(st, cs, len(all))
	for _, d := range wd {
		fail(d.Kind, "%s", d.Detail)
	}
	if len(wd) > 0 {
		return ds, pages, all, false
	}
	// strictly ascending over the whole walk, no repeats
	for i := 1; i < len(got); i++ {
		if got[i][2:] <= got[i-1][2:] {
			kind := "not-ascending"
			if got[i] == got[i-1] || contains(got[:i], got[i]) {
				kind = "entry-repeated"
				if strings.HasPrefix(got[i], "p:") {
					kind = "common-prefix-repeated-across-pages"
				}
			}
			fail(kind, "walk produced %q (entry %d after %q)", got, i, got[i-1])
			return ds, pages, all, false
		}
	}
	if !cs.HasStart || cs.Start == "" {
		if !eqStrings(got, all) {
			fail("walk-mismatch", "concatenated pages = %q want %q", got, all)
		}
		return ds, pages, all, false
	}
	// explicit start marker m: mandatory = entries > m; optional = common prefixes <= m that
	// still have a member key > m; forbidden = everything else.
	m := cs.Start
	mandatory := map[string]bool{}
	optional := map[string]bool{}
	for _, e := range all {
		k := e[2:]
		if k > m {
			mandatory[e] = true
			continue
		}
		if strings.HasPrefix(e, "p:") {
			for _, key := range cs.Keys {
				if strings.HasPrefix(key, k) && key > m {
					optional[e] = true
					straddle = true
				}
			}
		}
	}
	for _, e := range got {
		if !mandatory[e] && !optional[e] {
			fail("entry-not-after-marker", "walk from marker %q returned %q (walk %q)", m, e, got)
		}
		delete(mandatory, e)
	}
	for e := range mandatory {
		fail("entry-skipped", "walk from marker %q skipped %q (walk %q, full listing %q)", m, e, got, all)
	}
	for _, e := range all {
		if e[2:] > m {
			want = append(want, e)
		}
	}
	return ds, pages, want, straddle
}

func contains(s []string, x string) bool {
	for _, y := range s {
		if y == x {
			return true
		}
	}
	return false
}

// c04Fallback checks the non-paginating backends: complete listing with
// IsTruncated=false, or 501 NotImplemented when configured to refuse.
func c04Fallback(st *backends.Stack, cs c04Case) (ds []disc) {
	full := oracle.List(cs.Keys, cs.Prefix, cs.Delim)
	all := full.Entries()
	fail := func(kind, f string, a ...interface{}) {
		ds = append(ds, disc{Kind: kind, Detail: fmt.Sprintf("backend=%s unimplPageError=%v keys=%q prefix=%q delim=%q max-keys=%d api=%s start=%q/%v: ", st.Kind, st.Opts.UnimplPageError, cs.Keys, cs.Prefix, cs.Delim, cs.MaxKeys, cs.API, cs.Start, cs.HasStart) + fmt.Sprintf(f, a...)})
	}
	pg, r, pd := c04Fetch(st, cs, "", "", true)
	if st.Opts.UnimplPageError {
		// a page request = max-keys given (non-default) or a marker given
		if r.Status != 501 || r.ErrCode() != "NotImplemented" {
			fail("fallback-not-refused", "configured to refuse pagination but answered %s", r)
		}
		return
	}
	if pg == nil {
		for _, d := range pd {
			fail(d.Kind, "%s", d.Detail)
		}
		return
	}
	if pg.truncated {
		fail("fallback-truncated", "non-paginating backend reports IsTruncated=true")
	}
	if !eqStrings(pg.entries, all) {
		fail("fallback-incomplete", "non-paginating backend returned %q, complete listing is %q", pg.entries, all)
	}
	return
}

type c04Bucket struct {
	*c03Bucket
	marked []string
}

// c04Store stores key in bk0: by a PUT, or - for every key whose length is 1 mod 3 - by a server-side
// copy from another bucket (an object that arrived by copy lists and pages like any other).
func c04Store(st *backends.Stack, key string, body []byte) *s3x.Resp {
	if len(key)%3 != 1 || st.Kind.IsSingle() {
		return put(st, "bk0", key, body)
	}
	if r := mkBucket(st, "bk1"); r.Status != 200 && r.ErrCode() != "BucketAlreadyExists" {
		panic("harness: create bucket bk1: " + r.String())
	}
	if r := put(st, "bk1", "copy-source", body); r.Status != 200 {
		return r
	}
	return s3x.Do(st.Handler, &s3x.Req{Method: "PUT", Path: "/bk0/" + key, Header: s3x.H("X-Amz-Copy-Source", "/bk1/copy-source")})
}

// c04BinaryKeys: the V2 walk over a bucket whose keys include bytes that are not UTF-8.
func c04BinaryKeys(cs c04Case) (wd []disc, pages, want int) {
	st := backends.Must(backends.Mem, backends.Options{})
	defer st.Close()
	ensureBucket(st, "bk0")
	ks := []string{"a", "b\xffa", "b\xffb", "c\xc3\x28", "c\xc3\x28d", "d", "e\x80/x", "e\x80/y"}
	for _, k := range ks {
		if r := put(st, "bk0", k, c03Body("x")); r.Status != 200 {
			panic("harness: " + r.String())
		}
	}
	want = len(ks)
	if cs.Delim == "/" {
		want = len(ks) - 1 // e\x80/x and e\x80/y roll up
	}
	got, pages, wd := c04Walk(st, cs, want)
	var keep []disc
	for _, d := range wd {
		if d.Kind != "page-order" { // the order of the U+FFFD spellings means nothing
			keep = append(keep, d)
		}
	}
	if len(keep) == 0 && len(got) != want {
		keep = dsc("binary-keys-count", "the V2 walk over %d entries (keys with bytes that are not UTF-8, delimiter %q, max-keys %d) visited %d in %d pages", want, cs.Delim, cs.MaxKeys, len(got), pages)
	}
	return keep, pages, want
}

const c04Many = 1003

var c04ManyQueries = [][]string{{"prefix", "big/", "delimiter", "/"}, {"prefix", "big/"}, {"prefix", "big/", "delimiter", "/", "max-keys", "1000"}, {"list-type", "2", "prefix", "big/", "delimiter", "/", "start-after", "big/"},
	{"list-type", "2", "prefix", "big/", "delimiter", "/", "max-keys", "5"}, {"prefix", "big/", "delimiter", "/", "marker", "big/k0000", "max-keys", "3"}}

func c04ManyStack(k backends.Kind) *backends.Stack {
	st := backends.Must(k, backends.Options{})
	ensureBucket(st, "bk0")
	for i := 0; i < c04Many; i++ {
		if r := put(st, "bk0", fmt.Sprintf("big/k%04d", i), []byte("x")); r.Status != 200 {
			panic("harness: " + r.String())
		}
	}
	return st
}

func c04FallbackMany(st *backends.Stack, q []string) []disc {
	doc, r := listDoc(st, "bk0", q...)
	switch {
	case doc == nil:
		return dsc("page-failed", "backend=%s %d keys at one level, request %v: %s", st.Kind, c04Many, q, r)
	case doc.IsTruncated || len(doc.Contents) != c04Many:
		return dsc("fallback-incomplete", "backend=%s %d keys at one level, request %v: %d entries, IsTruncated=%v; a backend without paging answers with the complete listing", st.Kind, c04Many, q, len(doc.Contents), doc.IsTruncated)
	}
	return nil
}

// c04DefaultPage: a request that names no page size is paged with the size the answer echoes
// (MaxKeys): on the paginating backend no page holds more entries than that, and following
// the continuation (again without a page size) visits every entry once, in order.
func c04DefaultPage(st *backends.Stack, q []string) []disc {
	v2 := len(q) > 1 && q[0] == "list-type"
	var got []string
	pos := ""
	for page := 1; ; page++ {
		qq := append([]string(nil), q...)
		if pos != "" {
			if v2 {
				qq = append(qq, "continuation-token", pos)
			} else {
				qq = append(qq, "marker", pos)
			}
		}
		doc, r := listDoc(st, "bk0", qq...)
		if doc == nil {
			return dsc("page-failed", "backend=%s %d keys, request %v (no max-keys), page %d: %s", st.Kind, c04Many, qq, page, r)
		}
		n := len(doc.Contents) + len(doc.CommonPrefixes)
		if doc.MaxKeys > 0 && int64(n) > doc.MaxKeys {
			return dsc("page-too-long", "backend=%s %d keys, request %v (no max-keys), page %d: %d entries in an answer that says MaxKeys=%d (IsTruncated=%v)", st.Kind, c04Many, qq, page, n, doc.MaxKeys, doc.IsTruncated)
		}
		for _, e := range doc.Contents {
			got = append(got, e.Key)
		}
		if !doc.IsTruncated {
			break
		}
		if n == 0 || page > 20 {
			return dsc("walk-does-not-end", "backend=%s %d keys, request %v (no max-keys): page %d has %d entries and IsTruncated=true", st.Kind, c04Many, qq, page, n)
		}
		switch {
		case v2:
			pos = doc.NextContinuationToken
		case doc.NextMarker != "":
			pos = doc.NextMarker
		default:
			pos = doc.Contents[len(doc.Contents)-1].Key
		}
	}
	if len(got) != c04Many {
		return dsc("walk-incomplete", "backend=%s %d keys, request %v (no max-keys): the pages hold %d keys", st.Kind, c04Many, q, len(got))
	}
	for i, k := range got {
		if k != fmt.Sprintf("big/k%04d", i) {
			return dsc("walk-order", "backend=%s %d keys, request %v (no max-keys): entry %d is %q", st.Kind, c04Many, q, i, k)
		}
	}
	return nil
}

var c04DefaultQueries = [][]string{{"prefix", "big/"}, {"prefix", "big/", "delimiter", "/"}, {}, {"list-type", "2", "prefix", "big/"}, {"list-type", "2"}, {"list-type", "2", "delimiter", "-"}}

func c04Replay(check string, raw json.RawMessage) ([]disc, error) {
	var cs c04Case
	if err := json.Unmarshal(raw, &cs); err != nil {
		return nil, err
	}
	if check == "default-page" {
		st := c04ManyStack(cs.Backend)
		defer st.Close()
		return c04DefaultPage(st, strings.Fields(cs.API)), nil
	}
	if check == "fallback-many" {
		st := c04ManyStack(cs.Backend)
		defer st.Close()
		return c04FallbackMany(st, strings.Fields(cs.API)), nil
	}
	st := backends.Must(cs.Backend, cs.Opts)
	defer st.Close()
	if err := ensureBucket(st, "bk0"); err != nil {
		return nil, err
	}
	if len(cs.Marked) > 0 {
		s3x.Do(st.Handler, &s3x.Req{Method: "PUT", Path: "/bk0", Query: s3x.Q("versioning", s3x.Bare), Body: []byte(`<VersioningConfiguration><Status>Enabled</Status></VersioningConfiguration>`)})
		for _, k := range cs.Marked {
			put(st, "bk0", k, c03Body(k))
			del(st, "bk0", k)
		}
	}
	for _, k := range cs.Keys {
		if r := c04Store(st, k, c03Body(k)); r.Status != 200 {
			return nil, fmt.Errorf("put %q: %s", k, r)
		}
	}
	if check == "fallback" {
		return c04Fallback(st, cs), nil
	}
	if check == "walk-binary-keys" {
		wd, _, _ := c04BinaryKeys(cs)
		return wd, nil
	}

	ds, _, _, _ := c04Check(st, cs)
	return ds, nil
}

func TestC04(t *testing.T) {
	runProp(t, propDef{
		ID:    "C04",
		Level: "exploration",
		Rule: "cases = (backend, key set incl. delete-marked keys, prefix, delimiter, max-keys, V1/V2, optional explicit start marker); bounded-exhaustive on the paginating backend (mem): key sets of size <= S over {a,b,/}^<=3 (S=3 quick, 4 thorough, sampled beyond), " +
			"all prefixes, delimiter none or '/', every max-keys from 1 to entries+1, walks driven by NextMarker/last key (V1) and NextContinuationToken (V2), and every start marker over the alphabet up to length 3 plus beyond-the-end values; " +
			"fallback path on bolt/fs with the unimplemented-page option on and off; 1003 keys at one level: complete on bolt/fs, and on mem paged by the size the answer names when the request names none; rapid: larger buckets (up to 60 keys) and random page sizes; " +
			"non-trivial = a walk of >= 2 pages that involves a common prefix, a delete-marked key in range, or a start marker not present in the bucket; distinct by the full case",
		Replay: c04Replay,
		Run:    c04Run,
	})
}

func c04Run(t *testing.T, c *evid.Collector) {
	keys := c03Keys()
	prefixes := c03Prefixes()
	strs := c03Strings(3)
	record := func(check string, cs c04Case, ds []disc, pages, nentries int, straddle bool, src string) bool {
		hasCP := false
		for _, k := range cs.Keys {
			if cs.Delim != "" && strings.HasPrefix(k, cs.Prefix) && strings.Contains(k[len(cs.Prefix):], cs.Delim) {
				hasCP = true
			}
		}
		absent := cs.HasStart && !contains(cs.Keys, cs.Start)
		nt := pages >= 2 && (hasCP || len(cs.Marked) > 0 || absent)
		if check == "fallback" {
			nt = nentries > 0
		}
		labels := []string{"backend:" + string(cs.Backend), "api:" + cs.API, "src:" + src, "check:" + check}
		if pages >= 2 {
			labels = append(labels, "multi-page")
		}
		if hasCP {
			labels = append(labels, "has-common-prefix")
		}
		if absent {
			labels = append(labels, "marker-absent-from-bucket")
		}
		if straddle {
			labels = append(labels, "marker-inside-common-prefix")
		}
		if len(cs.Marked) > 0 {
			labels = append(labels, "delete-marked-keys")
		}
		c.Case(evid.FP(check, mustJSON(cs)), nt, func() interface{} { return cs }, labels...)
		return report(c, check, ds, cs)
	}

	// ---- bounded-exhaustive walks on mem
	maxSet := evid.Scale(3, 4)
	if evid.Shard() == 0 || evid.Shards() > 1 {
		b := newC03Bucket(backends.Mem)
		var set []string
		nsets := 0
		var rec func(start, size int)
		visit := func() {
			nsets++
			if evid.Shards() > 1 && nsets%evid.Shards() != evid.Shard() {
				return
			}
			if err := b.sync(set); err != nil {
				panic(err)
			}
			ks := append([]string(nil), set...)
			for _, d := range []string{"", "/"} {
				for _, p := range prefixes {
					if !c03InDomain(set, p, d) {
						continue
					}
					n := len(oracle.List(ks, p, d).Entries())
					if n == 0 && p != "" {
						continue
					}
					for mk := 1; mk <= n+1; mk++ {
						for _, api := range []string{"v1", "v2"} {
							cs := c04Case{Backend: backends.Mem, Keys: ks, Prefix: p, Delim: d, MaxKeys: mk, API: api}
							ds, pages, want, _ := c04Check(b.st, cs)
							record("walk", cs, ds, pages, len(want), false, "exhaustive")
						}
					}
				}
			}
			// explicit start markers (set sizes <= 2 in quick to bound the cost)
			if len(set) <= evid.Scale(2, 3) {
				starts := append(append([]string(nil), strs...), "c", "zzz", strings.Repeat("y", 1024))
				for _, d := range []string{"", "/"} {
					for _, p := range []string{"", "a", "a/"} {
						if !c03InDomain(set, p, d) {
							continue
						}
						for _, m := range starts {
							for _, mk := range []int{1, 2, 1000} {
								for _, api := range []string{"v1", "v2"} {
									cs := c04Case{Backend: backends.Mem, Keys: ks, Prefix: p, Delim: d, MaxKeys: mk, API: api, Start: m, HasStart: true}
									ds, pages, want, straddle := c04Check(b.st, cs)
									record("walk", cs, ds, pages, len(want), straddle, "exhaustive-start-marker")
									if api == "v2" && pages >= 2 {
										cs.RepeatStart = true
										ds, pages, want, straddle := c04Check(b.st, cs)
										record("walk", cs, ds, pages, len(want), straddle, "exhaustive-start-marker-repeated")
									}
								}
							}
						}
					}
				}
			}
		}
		rec = func(start, size int) {
			visit()
			if size == maxSet {
				return
			}
			for i := start; i < len(keys); i++ {
				set = append(set, keys[i])
				rec(i+1, size+1)
				set = set[:len(set)-1]
			}
		}
		rec(0, 0)
		b.st.Close()
		c.Set("exhaustive_scope", fmt.Sprintf("mem: %d key sets of size <= %d over 18 keys x 27 prefixes x delimiter {none,'/'} x every max-keys 1..entries+1 x V1/V2 walks; explicit start markers: all 40 strings over {a,b,/}^<=3 + 3 beyond-the-end values: complete (split over shards)", nsets, maxSet))
		c.Exhaustive(false)
	}

	// ---- fallback path (non-paginating backends), option off and on
	if evid.Shard() == 0 {
		for _, k := range kindsFromEnv([]backends.Kind{backends.Bolt, backends.MultiMem, backends.MultiDir, backends.SingleMem, backends.SingleDir}) {
			for _, refuse := range []bool{false, true} {
				st := backends.Must(k, backends.Options{UnimplPageError: refuse})
				if err := ensureBucket(st, "bk0"); err != nil {
					panic(err)
				}
				ks := []string{"a", "ab", "b/a", "b/b", "bb"}
				for _, kk := range ks {
					c04Store(st, kk, c03Body(kk))
				}
				for _, d := range []string{"", "/"} {
					for _, p := range []string{"", "a", "b", "b/"} {
						for _, mk := range []int{1, 2, 3, 999} {
							for _, api := range []string{"v1", "v2"} {
								for _, hs := range []bool{false, true} {
									cs := c04Case{Backend: k, Opts: backends.Options{UnimplPageError: refuse}, Keys: ks, Prefix: p, Delim: d, MaxKeys: mk, API: api, HasStart: hs, Start: "a"}
									ds := c04Fallback(st, cs)
									record("fallback", cs, ds, 1, len(ks), false, "fallback")
								}
							}
						}
					}
				}
				st.Close()
			}
		}
	}

	// ---- more entries at one level than a page holds (1000): a backend without paging still answers
	// with all of them, not truncated, whatever page size or position the request names
	if evid.Shard() == 0 {
		for _, k := range kindsFromEnv([]backends.Kind{backends.Bolt, backends.MultiMem, backends.SingleMem}) {
			st := c04ManyStack(k)
			for _, q := range c04ManyQueries {
				cs := c04Case{Backend: k, Keys: []string{fmt.Sprintf("(%d keys big/k0000 …)", c04Many)}, Prefix: "big/", MaxKeys: c04Many, API: strings.Join(q, " ")}
				record("fallback-many", cs, c04FallbackMany(st, q), 1, c04Many, false, "fallback-many")
			}
			st.Close()
		}
	}

	// ---- keys that were delete-marked and then written again (memory backend, versioning enabled):
	// live keys like any other, wherever in the order they lie - the last ones in particular
	if evid.Shard() == 0 {
		for _, kk := range kindsFromEnv([]backends.Kind{backends.Mem}) {
			for _, set := range [][2][]string{
				{{"a", "logs/1", "logs/2", "logs/3", "m"}, {"logs/2", "logs/3", "m"}},
				{{"a", "logs/1", "logs/2", "logs/3", "m"}, {"m", "zz-stays-deleted"}},
				{{"a", "b", "c", "d"}, {"a", "d", "e"}},
				{{"p/x", "p/y", "q"}, {"p/x", "p/y", "q", "r"}},
			} {
				for _, pd := range [][2]string{{"", ""}, {"", "/"}, {"logs/", "/"}, {"p/", ""}} {
					for _, api := range []string{"v1", "v2"} {
						for mk := 1; mk <= 5; mk++ {
							cs := c04Case{Backend: kk, Keys: set[0], Marked: set[1], Prefix: pd[0], Delim: pd[1], MaxKeys: mk, API: api}
							raw, _ := json.Marshal(cs)
							ds, err := c04Replay("walk", raw)
							if err != nil {
								panic("harness: " + err.Error())
							}
							record("walk", cs, ds, 2, len(set[0]), false, "fixed-rewritten-after-delete")
						}
					}
				}
			}
		}
	}

	// ---- ... and the paginating backend pages them by the size its answer names when the request names none
	if evid.Shard() == 0 {
		st := c04ManyStack(backends.Mem)
		for _, q := range c04DefaultQueries {
			cs := c04Case{Backend: backends.Mem, Keys: []string{fmt.Sprintf("(%d keys big/k0000 …)", c04Many)}, Prefix: "big/", API: strings.Join(q, " ")}
			record("default-page", cs, c04DefaultPage(st, q), 2, c04Many, false, "default-page")
		}
		st.Close()
	}

	// ---- keys up to the 1024-byte limit: markers and tokens derived from them are longer than
	// any key (a V2 token encodes the key), and must still be taken back
	if evid.Shard() == 0 {
		st := backends.Must(backends.Mem, backends.Options{})
		ensureBucket(st, "bk0")
		ks := []string{strings.Repeat("k", 768) + "a", strings.Repeat("k", 769) + "b", strings.Repeat("l", 1000), strings.Repeat("m", 800) + "/x", strings.Repeat("m", 800) + "/y", strings.Repeat("n", 1024), "z"}
		for _, k := range ks {
			if r := c04Store(st, k, c03Body(k[:1])); r.Status != 200 {
				panic("harness: " + r.String())
			}
		}
		sort.Strings(ks)
		for _, d := range []string{"", "/"} {
			for _, mk := range []int{1, 2, 3} {
				for _, api := range []string{"v1", "v2"} {
					cs := c04Case{Backend: backends.Mem, Keys: ks, Delim: d, MaxKeys: mk, API: api}
					ds, pages, want, straddle := c04Check(st, cs)
					record("walk", cs, ds, pages, len(want), straddle, "long-keys")
				}
			}
		}
		st.Close()
	}

	// ---- keys that are not valid UTF-8: the XML listing cannot spell them (they arrive as U+FFFD), so
	// what is compared is what a token-following client can see - the V2 walk terminates and visits as
	// many entries as there are keys, none twice in a row
	if evid.Shard() == 0 {
		for _, d := range []string{"", "/"} {
			for _, mk := range []int{1, 2, 3} {
				cs := c04Case{Backend: backends.Mem, Keys: []string{"(8 keys, four of them not valid UTF-8)"}, Delim: d, MaxKeys: mk, API: "v2"}
				wd, pages, want := c04BinaryKeys(cs)
				record("walk-binary-keys", cs, wd, pages, want, false, "binary-keys")
			}
		}
	}

	// ---- random larger buckets on mem, with delete markers
	rapidRun(t, "random", evid.Scale(300, 6000), func(rt *rapid.T) {
		st := backends.Must(backends.Mem, backends.Options{})
		defer st.Close()
		ensureBucket(st, "bk0")
		versioned := rapid.IntRange(0, 2).Draw(rt, "versioned") == 0
		if versioned {
			s3x.Do(st.Handler, &s3x.Req{Method: "PUT", Path: "/bk0", Query: s3x.Q("versioning", s3x.Bare), Body: []byte(`<VersioningConfiguration><Status>Enabled</Status></VersioningConfiguration>`)})
		}
		segGen := rapid.OneOf(rapid.StringMatching(`[a-d]{1,2}`), rapid.SampledFrom([]string{"x.y", "é", "a b", "0", "zz", "a+d", "a c", "(b)", "100%", "a&b", "q?"}))
		nkeys := rapid.IntRange(1, 60).Draw(rt, "nkeys")
		live := map[string]bool{}
		var marked []string
		for i := 0; i < nkeys; i++ {
			n := rapid.IntRange(1, 3).Draw(rt, "nseg")
			var segs []string
			for j := 0; j < n; j++ {
				segs = append(segs, segGen.Draw(rt, "seg"))
			}
			k := strings.Join(segs, "/")
			c04Store(st, k, c03Body(k))
			live[k] = true
			if versioned && rapid.IntRange(0, 4).Draw(rt, "mark") == 0 {
				del(st, "bk0", k)
				delete(live, k)
				marked = append(marked, k)
			}
		}
		var ks []string
		for k := range live {
			ks = append(ks, k)
		}
		sort.Strings(ks)
		var mk2 []string
		for _, m := range marked {
			if !live[m] {
				mk2 = append(mk2, m)
			}
		}
		for j := 0; j < 3; j++ {
			cs := c04Case{Backend: backends.Mem, Keys: ks, Marked: mk2, API: rapid.SampledFrom([]string{"v1", "v2"}).Draw(rt, "api")}
			if rapid.Bool().Draw(rt, "delim") {
				cs.Delim = "/"
			}
			if len(ks) > 0 && rapid.Bool().Draw(rt, "pfx") {
				base := rapid.SampledFrom(ks).Draw(rt, "pbase")
				cs.Prefix = base[:rapid.IntRange(0, len(base)).Draw(rt, "cut")]
				if !validUTF8(cs.Prefix) || strings.HasPrefix(cs.Prefix, "/") {
					cs.Prefix = ""
				}
			}
			cs.MaxKeys = rapid.IntRange(1, len(ks)+2).Draw(rt, "maxkeys")
			cs.Enc = rapid.IntRange(0, 2).Draw(rt, "enc") == 0
			if rapid.IntRange(0, 3).Draw(rt, "start") == 0 {
				cs.HasStart = true
				pool := append(append([]string(nil), ks...), mk2...)
				pool = append(pool, "", "zzzz", "a/", "b")
				cs.Start = rapid.SampledFrom(pool).Draw(rt, "startv")
				cs.RepeatStart = rapid.Bool().Draw(rt, "repeatstart")
			}
			ds, pages, want, straddle := c04Check(st, cs)
			if record("walk", cs, ds, pages, len(want), straddle, "random") {
				rt.Fatalf("C04 violated: %v", ds)
			}
		}
	})

	// ---- max-keys clamping and validation
	if evid.Shard() == 0 {
		st := backends.Must(backends.Mem, backends.Options{})
		ensureBucket(st, "bk0")
		n := 1001
		if !evid.Thorough() {
			n = 40
		}
		var ks []string
		for i := 0; i < n; i++ {
			k := fmt.Sprintf("k%05d", i)
			put(st, "bk0", k, []byte("x"))
			ks = append(ks, k)
		}
		for _, mk := range []string{"abc", "1x", "", "-1", "0", "1001", "99999999999999999999"} {
			doc, r := listDoc(st, "bk0", "max-keys", mk)
			cs := c04Case{Backend: backends.Mem, Keys: []string{fmt.Sprintf("%d sequential keys", n)}, API: "v1", Prefix: "max-keys=" + mk}
			var ds []disc
			_, numErr := fmt.Sscanf(mk, "%d", new(int64))
			isNum := numErr == nil && strings.Trim(mk, "-0123456789") == "" && len(mk) < 19
			switch {
			case mk == "":
				if doc == nil {
					ds = dsc("max-keys", "empty max-keys refused: %s", r)
				}
			case !isNum:
				if r.Status != 400 || r.ErrCode() != "InvalidArgument" {
					ds = dsc("max-keys", "max-keys=%q must be refused with InvalidArgument, got %s", mk, r)
				}
			default:
				if doc == nil {
					ds = dsc("max-keys", "max-keys=%q refused: %s", mk, r)
				} else if len(doc.Contents) > 1000 && !strings.HasPrefix(mk, "-") && mk != "0" {
					ds = dsc("max-keys-clamp", "max-keys=%q returned %d entries (> 1000)", mk, len(doc.Contents))
				}
			}
			record("maxkeys", cs, ds, 1, n, false, "max-keys-values")
		}
		if evid.Thorough() {
			for _, api := range []string{"v1", "v2"} {
				cs := c04Case{Backend: backends.Mem, Keys: ks, MaxKeys: 5000, API: api}
				ds, pages, want, _ := c04Check(st, cs)
				record("walk", cs, ds, pages, len(want), false, "clamp-1001-keys")
			}
		}
		st.Close()
	}
	_ = base64.StdEncoding
}

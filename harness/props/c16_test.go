//go:build verif

package props

import (
	"bytes"
	"encoding/json"
	"fmt"
	"io"
	"net/http"
	"net/url"
	"regexp"
	"sort"
	"strings"
	"sync"
	"syscall"
	"testing"

	"verif/harness/backends"
	"verif/harness/evid"
	"verif/harness/prog"
	"verif/harness/s3x"

	"pgregory.net/rapid"
)

// C16 — path-style and virtual-host-style addressing reach the same bucket and key.

type c16Case struct {
	// Mode: "host" = WithHostBucket(true); "bases" = WithHostBucketBase(Bases...); "both" = both
	// options (the bases decide the routing, as with "bases")
	Mode     string    `json:"mode"`
	Bases    []string  `json:"bases,omitempty"`
	Base     string    `json:"base"` // the base used to address buckets in host form
	Setup    []prog.Op `json:"setup"`
	Requests []lreq    `json:"requests"`
	// Fallback hosts (bases mode): each request is additionally sent path-style with this Host
	FallbackHost string `json:"fallbackHost,omitempty"`
	// Auto: both servers create buckets on demand (auto-bucket option)
	Auto bool `json:"auto,omitempty"`
}

var reLastMod = regexp.MustCompile(`<LastModified>[^<]*</LastModified>`)
var reLocation = regexp.MustCompile(`<Location>[^<]*</Location>`)

func c16Norm(r *s3x.Resp) string {
	if r.ParseError != "" {
		return "parse-error"
	}
	if r.Panic != "" {
		return "panic " + r.PanicSite
	}
	body := reLastMod.ReplaceAll(r.Body, []byte("<LastModified/>"))
	body = reLocation.ReplaceAll(body, []byte("<Location/>"))
	var hs []string
	for k, v := range r.Header {
		hs = append(hs, k+": "+strings.Join(v, ","))
	}
	sort.Strings(hs)
	return fmt.Sprintf("%d\n%s\n%s", r.Status, strings.Join(hs, "\n"), body)
}

func c16Opts(cs c16Case) backends.Options {
	if cs.Mode == "host" {
		return backends.Options{HostBucket: true, AutoBucket: cs.Auto}
	}
	return backends.Options{HostBases: cs.Bases, HostBucket: cs.Mode == "both", AutoBucket: cs.Auto}
}

// c16AutoModes: the addressing options next to the auto-bucket option (twin streams only)
var c16AutoModes = []c16Case{
	{Mode: "host", Base: "s3.test", Auto: true},
	{Mode: "bases", Bases: []string{"s3.test"}, Base: "s3.test", Auto: true},
	{Mode: "both", Bases: []string{"other.example", "s3.test:9000"}, Base: "s3.test:9000", Auto: true},
}

func c16Exec(cs c16Case) (ds []disc, sent int) {
	a := backends.Must(backends.Mem, backends.Options{AutoBucket: cs.Auto})
	defer a.Close()
	b := backends.Must(backends.Mem, c16Opts(cs))
	defer b.Close()
	ra, rb := prog.NewRunner(a), prog.NewRunner(b)
	rb.Addr = func(bucket, rest string) (string, string) { return bucket + "." + cs.Base, "/" + rest }
	// in pure host mode bucket creation is addressed through the host as well
	for i, op := range cs.Setup {
		da, db := ra.Step(op), rb.Step(op)
		if len(da) > 0 || len(db) > 0 {
			d := append(da, db...)
			for j := range d {
				d[j].Kind = "setup:" + d[j].Kind
				d[j].Detail = fmt.Sprintf("setup step %d (path-style discrepancies: %d, host-style: %d): %s", i, len(da), len(db), d[j].Detail)
			}
			return d, 0
		}
		if ra.Last != nil && rb.Last != nil && c16Norm(ra.Last) != c16Norm(rb.Last) {
			return dsc("setup-responses-differ", "setup step %d [%s]: path-style answered\n%s\nhost-style answered\n%s", i, op, trunc([]byte(c16Norm(ra.Last)), 600), trunc([]byte(c16Norm(rb.Last)), 600)), 0
		}
	}
	for i, l := range cs.Requests {
		pa := l.pathStyle()
		hb := l.hostStyle(cs.Base)
		if l.Bucket == "" {
			// service-level request: only expressible through the fallback in bases mode
			if cs.Mode == "host" {
				continue
			}
			hb = l.pathStyle()
			hb.Host = cs.Base
		}
		xa := s3x.Do(a.Handler, pa)
		xb := s3x.Do(b.Handler, hb)
		sent++
		na, nb := c16Norm(xa), c16Norm(xb)
		if na != nb {
			return dsc("responses-differ", "request %d [%s] %s: path-style %s %s answered\n%s\nhost-style Host=%s %s answered\n%s", i, l.Family, l.Method, l.Method, trunc([]byte(pa.Target()), 120), trunc([]byte(na), 700), hb.Host, trunc([]byte(hb.Target()), 120), trunc([]byte(nb), 700)), sent
		}
		// Location of CompleteMultipartUpload depends on the mode: check its format separately
		if l.Family == "complete" && xa.Status == 200 && bytes.Contains(xa.Body, []byte("<CompleteMultipartUploadResult>")) {
			var da, db s3x.CompleteDoc
			xa.XML(&da)
			xb.XML(&db)
			// each names the object the way the request that completed it was addressed
			wantA := "http://s3.test/" + l.Bucket + "/" + l.Key
			wantB := "http://" + l.Bucket + "." + cs.Base + "/" + l.Key
			if da.Location != wantA || db.Location != wantB {
				return dsc("complete-location", "request %d: Location path-style %q (want %q), host-style %q (want %q)", i, da.Location, wantA, db.Location, wantB), sent
			}
		}
		if cs.FallbackHost != "" && cs.Mode != "host" && l.Bucket != "" {
			// a host that is not <single label>.<base> must fall back to path-style routing
			fb := l.pathStyle()
			fb.Host = cs.FallbackHost
			// send it to a third stack in the same state? The request may mutate: use idempotent reads only
			if l.Method == "GET" || l.Method == "HEAD" {
				xa2 := s3x.Do(a.Handler, l.pathStyle())
				xf := s3x.Do(b.Handler, fb)
				sent++
				if n1, n2 := c16Norm(xa2), c16Norm(xf); n1 != n2 {
					return dsc("fallback-differs", "request %d [%s]: Host=%q is not <label>.<base> and must be routed path-style; path-style stack answered\n%s\nhost-base stack answered\n%s", i, l.Family, cs.FallbackHost, trunc([]byte(n1), 600), trunc([]byte(n2), 600)), sent
				}
			}
		}
	}
	// final snapshots must be equal
	sa, sb := c16Snapshot(a, ra, nil), c16Snapshot(b, rb, rb.Addr)
	if sa != sb {
		return dsc("final-state-differs", "after the stream the two stacks hold different state:\npath-style:\n%s\nhost-style:\n%s", trunc([]byte(sa), 800), trunc([]byte(sb), 800)), sent
	}
	return nil, sent
}

func c16Snapshot(st *backends.Stack, r *prog.Runner, addr func(bucket, rest string) (string, string)) string {
	var sb strings.Builder
	bl, _ := st.Backend.ListBuckets()
	var names []string
	for _, b := range bl {
		names = append(names, b.Name)
	}
	sort.Strings(names)
	fmt.Fprintf(&sb, "buckets %v\n", names)
	for _, b := range names {
		rq := &s3x.Req{Method: "GET", Path: "/" + b, Query: s3x.Q("versions", s3x.Bare)}
		if addr != nil {
			rq.Host, rq.Path = addr(b, "")
		}
		x := s3x.Do(st.Handler, rq)
		fmt.Fprintf(&sb, "%s versions: %d %s\n", b, x.Status, md5hex(reLastMod.ReplaceAll(x.Body, nil)))
		doc, _ := s3x.ParseVersions(x.Body)
		if doc != nil {
			for _, e := range doc.Entries {
				if e.IsMarker {
					continue
				}
				rq := &s3x.Req{Method: "GET", Path: "/" + b + "/" + e.Key, Query: s3x.Q("versionId", e.VersionId)}
				if addr != nil {
					rq.Host, rq.Path = addr(b, e.Key)
				}
				g := s3x.Do(st.Handler, rq)
				fmt.Fprintf(&sb, "  %s@%s -> %d %s\n", e.Key, e.VersionId, g.Status, md5hex(g.Body))
			}
		}
	}
	return sb.String()
}

// c16Location: the Location in the result of a completed multipart upload is a URL under which
// the same server serves that object, however the completing request was addressed: via = "" sends
// it to <bucket>.<base>, any other value is a host that falls back to path-style (the Location
// then is what the path-style server answers for that host).
func c16Location(cs c16Case, via string) (ds []disc) {
	b := backends.Must(backends.Mem, c16Opts(cs))
	defer b.Close()
	fail := func(kind, f string, a ...interface{}) {
		ds = append(ds, dsc(kind, "mode=%s bases=%v completing request sent to %q: "+f, append([]interface{}{cs.Mode, cs.Bases, via}, a...)...)...)
	}
	const bucket, key = "bk0", "dir/obj"
	req := func(method, rest string, q [][2]string, body []byte) *s3x.Resp {
		rq := &s3x.Req{Method: method, Host: bucket + "." + cs.Base, Path: "/" + rest, Query: q, Body: body}
		if via != "" {
			rq.Host, rq.Path = via, "/"+bucket+"/"+rest
		}
		return s3x.Do(b.Handler, rq)
	}
	if r := req("PUT", "", nil, nil); r.Status != 200 {
		fail("location-setup", "create bucket: %s", r)
		return
	}
	var init s3x.InitiateDoc
	if r := req("POST", key, s3x.Q("uploads", s3x.Bare), nil); r.Status != 200 || r.XML(&init) != nil {
		fail("location-setup", "initiate: %s", r)
		return
	}
	part := []byte("the only part")
	pr := req("PUT", key, s3x.Q("partNumber", "1", "uploadId", init.UploadId), part)
	if pr.Status != 200 {
		fail("location-setup", "upload part: %s", pr)
		return
	}
	x := "<CompleteMultipartUpload><Part><PartNumber>1</PartNumber><ETag>" + xmlEsc(pr.Header.Get("ETag")) + "</ETag></Part></CompleteMultipartUpload>"
	cr := req("POST", key, s3x.Q("uploadId", init.UploadId), []byte(x))
	var doc s3x.CompleteDoc
	if cr.Status != 200 || cr.XML(&doc) != nil {
		fail("location-setup", "complete: %s", cr)
		return
	}
	u, err := url.Parse(doc.Location)
	if err != nil || u.Host == "" {
		fail("complete-location", "Location %q is not an absolute URL (%v)", doc.Location, err)
		return
	}
	g := s3x.Do(b.Handler, &s3x.Req{Method: "GET", Host: u.Host, RawTarget: u.RequestURI()})
	if g.Status != 200 || !bytes.Equal(g.Body, part) {
		fail("complete-location", "the result says Location %q (bucket %q, key %q), but GET %s with Host %s answers %d (%d bytes): the URL does not address the object on this server", doc.Location, doc.Bucket, doc.Key, u.RequestURI(), u.Host, g.Status, len(g.Body))
	}
	if via != "" {
		if want := "http://" + via + "/" + bucket + "/" + key; doc.Location != want {
			fail("complete-location", "a request that falls back to path-style is answered with Location %q; the path-style server answers %q", doc.Location, want)
		}
	}
	return
}

// c16CrossServers: what a Host value means is decided by the bases of the server that receives the
// request, not by what another server in the same process made of that value before.
func c16CrossServers() (ds []disc) {
	a := backends.Must(backends.Mem, backends.Options{HostBases: []string{"a.example"}})
	defer a.Close()
	b := backends.Must(backends.Mem, backends.Options{HostBases: []string{"b.example", "deep.a.example"}})
	defer b.Close()
	for name, st := range map[string]*backends.Stack{"A": a, "B": b} {
		for _, bk := range []string{"bk0", "bk1"} {
			if r := s3x.Do(st.Handler, &s3x.Req{Method: "PUT", Host: "localhost", Path: "/" + bk}); r.Status != 200 {
				return dsc("cross-setup", "server %s: create %s: %s", name, bk, r)
			}
			if r := s3x.Do(st.Handler, &s3x.Req{Method: "PUT", Host: "localhost", Path: "/" + bk + "/obj", Body: []byte(name + ":" + bk + "/obj")}); r.Status != 200 {
				return dsc("cross-setup", "server %s: put: %s", name, r)
			}
		}
	}
	type probe struct {
		host, path string
		// expected answer per server: body of a 200, or "" for "no such bucket/key"
		onA, onB string
	}
	get := func(st *backends.Stack, p probe) string {
		r := s3x.Do(st.Handler, &s3x.Req{Method: "GET", Host: p.host, Path: p.path})
		if r.Status == 200 {
			return string(r.Body)
		}
		return ""
	}
	// each round: a host that is <label>.<base> for one server only, asked of that server first or last
	for round, order := range [][2]string{{"A", "B"}, {"B", "A"}} {
		lbl := fmt.Sprintf("bk%d", round%2)
		probes := []probe{
			{lbl + ".a.example", "/obj", "A:" + lbl + "/obj", ""},
			{lbl + ".a.example", "/" + lbl + "/obj", "", "B:" + lbl + "/obj"},
			{lbl + ".b.example", "/obj", "", "B:" + lbl + "/obj"},
			{lbl + ".b.example", "/" + lbl + "/obj", "A:" + lbl + "/obj", ""},
			{lbl + ".deep.a.example", "/obj", "", "B:" + lbl + "/obj"},
			{lbl + ".deep.a.example", "/" + lbl + "/obj", "A:" + lbl + "/obj", ""},
		}
		for _, p := range probes {
			for _, who := range order {
				st, want := a, p.onA
				if who == "B" {
					st, want = b, p.onB
				}
				if got := get(st, p); got != want {
					ds = append(ds, dsc("cross-server-routing", "round %d (order %v): server %s answers GET %s with Host %q with %q, want %q (A has the base a.example, B the bases b.example and deep.a.example)", round, order, who, p.path, p.host, got, want)...)
					return
				}
			}
		}
	}
	return nil
}

// c16Binary: the command line of cmd/gofakes3 says -hostbucketbase "can be passed multiple times, or
// as a single comma separated list": every base given either way is a base of the running server.
func c16Binary(args []string, bases []string) (ds []disc) {
	bin, err := c15Binary()
	if err != nil {
		return dsc("inconclusive:build", "%v", err)
	}
	srv, err := c15Start(bin, append([]string{"-backend", "memory", "-initialbucket", "bk0"}, args...)...)
	if err != nil {
		return dsc("inconclusive:start", "%v", err)
	}
	defer srv.kill(syscall.SIGKILL)
	do := func(method, host, path string, body []byte) (int, string) {
		rq, err := http.NewRequest(method, srv.base+path, bytes.NewReader(body))
		if err != nil {
			return 0, err.Error()
		}
		if host != "" {
			rq.Host = host
		}
		resp, err := c15Client.Do(rq)
		if err != nil {
			return 0, err.Error()
		}
		defer resp.Body.Close()
		b, _ := io.ReadAll(resp.Body)
		return resp.StatusCode, string(b)
	}
	if st, b := do("PUT", "", "/bk0/dir/obj", []byte("the object")); st != 200 {
		return dsc("inconclusive:setup", "PUT /bk0/dir/obj answered %d %s", st, b)
	}
	wantSt, want := do("GET", "", "/bk0/dir/obj", nil)
	for _, base := range bases {
		if st, b := do("GET", "bk0."+base, "/dir/obj", nil); st != wantSt || b != want {
			ds = append(ds, dsc("cli-host-base", "gofakes3 %s: GET /dir/obj with Host bk0.%s answers %d %q; GET /bk0/dir/obj answers %d %q", strings.Join(args, " "), base, st, trunc([]byte(b), 120), wantSt, want)...)
		}
	}
	return ds
}

// c16Stress: several clients at once, each working on its own bucket, named in the Host header.
// Only one client writes to a bucket, so whatever the interleaving each of its reads returns what it
// wrote last; a request that lands in another client's bucket shows up as a foreign body, a missing
// key or a changed final state.
func c16Stress(cs c16Case, clients, rounds int) (ds []disc) {
	st := backends.Must(backends.Mem, c16Opts(cs))
	defer st.Close()
	name := func(g int) string { return fmt.Sprintf("client-%d", g) }
	for g := 0; g < clients; g++ {
		if err := st.Backend.CreateBucket(name(g)); err != nil {
			panic(err)
		}
		v := "object of " + name(g) + " #0"
		if _, err := st.Backend.PutObject(name(g), "key", map[string]string{}, strings.NewReader(v), int64(len(v))); err != nil {
			panic(err)
		}
	}
	how := fmt.Sprintf("mode=%s bases=%v base=%s, %d clients x %d rounds, each on its own bucket in host form: ", cs.Mode, cs.Bases, cs.Base, clients, rounds)
	var mu sync.Mutex
	var wg sync.WaitGroup
	for g := 0; g < clients; g++ {
		wg.Add(1)
		go func(g int) {
			defer wg.Done()
			host := name(g) + "." + cs.Base
			cur := "object of " + name(g) + " #0"
			bad := func(kind, f string, a ...interface{}) {
				mu.Lock()
				if len(ds) < 5 {
					ds = append(ds, dsc(kind, how+f, a...)...)
				}
				mu.Unlock()
			}
			for i := 1; i <= rounds; i++ {
				switch i % 3 {
				case 0:
					cur = fmt.Sprintf("object of %s #%d", name(g), i)
					if r := s3x.Do(st.Handler, &s3x.Req{Method: "PUT", Host: host, Path: "/key", Body: []byte(cur)}); r.Status != 200 {
						bad("stress-status", "PUT for %s answered %s", name(g), r)
						return
					}
				case 1:
					if r := s3x.Do(st.Handler, &s3x.Req{Method: "GET", Host: host, Path: "/key"}); r.Status != 200 || string(r.Body) != cur {
						bad("stress-wrong-bucket", "GET for %s answered %d %q; the only writer of that bucket last stored %q", name(g), r.Status, trunc(r.Body, 60), cur)
						return
					}
				default:
					if r := s3x.Do(st.Handler, &s3x.Req{Method: "HEAD", Host: host, Path: "/key"}); r.Status != 200 || r.Header.Get("ETag") != etagOf([]byte(cur)) {
						bad("stress-wrong-bucket", "HEAD for %s answered %d ETag %s; the only writer of that bucket last stored %q (ETag %s)", name(g), r.Status, r.Header.Get("ETag"), cur, etagOf([]byte(cur)))
						return
					}
				}
			}
			obj, err := st.Backend.GetObject(name(g), "key", nil)
			if err != nil {
				bad("stress-wrong-bucket", "bucket %s: the key cannot be read at the end: %v", name(g), err)
				return
			}
			body, _ := io.ReadAll(obj.Contents)
			obj.Contents.Close()
			if string(body) != cur {
				bad("stress-wrong-bucket", "bucket %s holds %q at the end; its only writer last stored %q", name(g), body, cur)
			}
		}(g)
	}
	wg.Wait()
	return ds
}

func c16Replay(check string, raw json.RawMessage) ([]disc, error) {
	var cs c16Case
	if err := json.Unmarshal(raw, &cs); err != nil {
		return nil, err
	}
	if check == "slashes" {
		return c16Slashes(cs), nil
	}
	if check == "binary" {
		var real []disc
		for _, d := range c16Binary(strings.Fields(cs.FallbackHost), cs.Bases) {
			if !strings.HasPrefix(d.Kind, "inconclusive:") {
				real = append(real, d)
			}
		}
		return real, nil
	}
	if check == "cross-servers" {
		return c16CrossServers(), nil
	}
	if check == "location" {
		return c16Location(cs, cs.FallbackHost), nil
	}
	if check == "stress" {
		// schedule-dependent: a re-run explores other interleavings of the same workload
		return c16Stress(cs, 8, 600), nil
	}
	ds, _ := c16Exec(cs)
	return ds, nil
}

// c16Slashes: extra slashes before the bucket or at the end of the path do not
// change which bucket or key is addressed (path-style and host-style).
func c16Slashes(cs c16Case) []disc {
	for _, l := range cs.Requests {
		for _, variant := range []string{"lead", "trail", "both"} {
			for _, host := range []bool{false, true} {
				opts := backends.Options{}
				if host {
					opts = c16Opts(cs)
					if variant != "trail" {
						continue // in host form the bucket is not in the path
					}
				}
				plain, slashed := backends.Must(backends.Mem, opts), backends.Must(backends.Mem, opts)
				var outs [2]string
				for i, st := range []*backends.Stack{plain, slashed} {
					r := prog.NewRunner(st)
					if host {
						r.Addr = func(bucket, rest string) (string, string) { return bucket + "." + cs.Base, "/" + rest }
					}
					for _, op := range cs.Setup {
						r.Step(op)
					}
					v := l
					if i == 1 {
						v.Slash = variant
					}
					var rq *s3x.Req
					if host {
						rq = v.hostStyle(cs.Base)
					} else {
						rq = v.pathStyle()
					}
					x := s3x.Do(st.Handler, rq)
					outs[i] = c16Norm(x) + "\n--state--\n" + c16Snapshot(st, r, r.Addr)
					st.Close()
				}
				if outs[0] != outs[1] {
					return dsc("slashes-change-addressing", "%s %s/%s [%s] with extra %q slashes (host-style=%v) answered differently:\nplain:\n%s\nwith slashes:\n%s", l.Method, l.Bucket, l.Key, l.Family, variant, host, trunc([]byte(outs[0]), 600), trunc([]byte(outs[1]), 600))
				}
			}
		}
	}
	return nil
}

func TestC16(t *testing.T) {
	runProp(t, propDef{
		ID:    "C16",
		Level: "exploration",
		Rule: "cases = (host-bucket option | host-bucket-base list with/without port, one/several bases, with or without the auto-bucket option, setup program, request stream); twin deterministic stacks (fixed clock, fixed version seed): every logical request of the routed-surface grammar (biased to well-formed, bucket names single DNS labels) " +
			"is sent as /<bucket>/<key>?q to the path-style stack and as Host: <bucket>.<base> + /<key>?q to the host-style stack; responses (status, headers, body; LastModified and Location normalised, Location format checked separately) and final states must be equal; " +
			"hosts that are not <single label>.<base> must be routed path-style; eight clients at once, each reading back what it alone writes to its own bucket in host form (also under the race build of C07); extra leading/trailing slashes must not change the addressed bucket/key; non-trivial = a request with an object key and >= 1 sub-resource, or a fallback host; distinct by (mode, request)",
		Replay: c16Replay,
		Run:    c16Run,
	})
}

var c16Modes = []c16Case{
	{Mode: "host", Base: "s3.test"},
	{Mode: "host", Base: "localhost.localdomain:9000"},
	{Mode: "bases", Bases: []string{"s3.test"}, Base: "s3.test"},
	{Mode: "bases", Bases: []string{"other.example", "s3.test:9000", ".dotted.example."}, Base: "s3.test:9000"},
	{Mode: "bases", Bases: []string{"other.example", "s3.test:9000", ".dotted.example."}, Base: "dotted.example"},
	{Mode: "bases", Bases: []string{"a.b.c.example.com", "s3.test"}, Base: "a.b.c.example.com"},
	// overlapping bases: one configured base is a dot-suffix of another, in both orders
	{Mode: "bases", Bases: []string{"example.com", "s3.example.com"}, Base: "s3.example.com"},
	{Mode: "bases", Bases: []string{"example.com", "s3.example.com"}, Base: "example.com"},
	{Mode: "bases", Bases: []string{"s3.example.com", "example.com", "eu.s3.example.com"}, Base: "eu.s3.example.com"},
	{Mode: "bases", Bases: []string{"test:9000", "s3.test:9000", "s3.test"}, Base: "s3.test:9000"},
	{Mode: "both", Bases: []string{"s3.test"}, Base: "s3.test"},
	{Mode: "both", Bases: []string{"other.example", "s3.test:9000", ".dotted.example."}, Base: "s3.test:9000"},
	{Mode: "both", Bases: []string{"example.com", "s3.example.com"}, Base: "example.com"},
}

// c16HostStyle reports whether host is "<single label>.<base>" for one of the bases (the
// statement of C16); every other host must be routed path-style.
func c16HostStyle(host string, bases []string) bool {
	for _, b := range bases {
		b = strings.Trim(b, ".")
		if strings.HasSuffix(host, "."+b) {
			label := host[:len(host)-len(b)-1]
			if label != "" && !strings.Contains(label, ".") {
				return true
			}
		}
	}
	return false
}

func c16Fallbacks(cs c16Case) []string {
	var out []string
	for _, h := range c16FallbackCandidates(cs) {
		if !c16HostStyle(h, cs.Bases) {
			out = append(out, h)
		}
	}
	return out
}

func c16FallbackCandidates(cs c16Case) []string {
	return []string{cs.Base, "." + cs.Base, "x.y." + cs.Base, "unrelated.example.org", "bk0.s3.test:1234", "bk0" + cs.Base, "bk0.other-" + cs.Base, "localhost", "127.0.0.1:9000", "bk0.", ".", "bk0.s3.test.evil.com"}
}

func c16Run(t *testing.T, c *evid.Collector) {
	record := func(check string, cs c16Case, ds []disc, sent int, src string) bool {
		labels := []string{"mode:" + cs.Mode, "src:" + src, "check:" + check}
		if cs.Auto {
			labels = append(labels, "auto-bucket")
		}
		nt := false
		for _, l := range cs.Requests {
			if l.Key != "" && len(l.Query) > 0 {
				nt = true
			}
			labels = append(labels, "family:"+l.Family)
		}
		if cs.FallbackHost != "" {
			nt = true
			labels = append(labels, "fallback-host")
		}
		c.Case(evid.FP(check, mustJSON(cs)), nt && sent > 0, func() interface{} {
			s := cs
			if len(s.Requests) > 6 {
				s.Requests = s.Requests[:6]
			}
			return s
		}, labels...)
		return report(c, check, ds, cs)
	}
	setup := []prog.Op{{K: "mkbucket", B: "bk0"}, {K: "mkbucket", B: "bk1"}, {K: "put", B: "bk0", Key: "a", Body: []byte("0123456789"), Meta: [][2]string{{"X-Amz-Meta-S", "s"}}},
		{K: "put", B: "bk0", Key: "d/x", Body: []byte("dx")}, {K: "setver", B: "bk1", Status: "Enabled"}, {K: "put", B: "bk1", Key: "a", Body: []byte("v1")}, {K: "put", B: "bk1", Key: "a", Body: []byte("v2")},
		{K: "del", B: "bk1", Key: "a"}, {K: "init", B: "bk0", Key: "a"}, {K: "part", Ref: 0, PartN: 1, Body: []byte("p1")}, {K: "part", Ref: 0, PartN: 3, Body: []byte("p3")}, {K: "init", B: "bk0", Key: "d/x"}}
	// fixed probes (ignore the seed): slashes and fallbacks for each mode
	if evid.Shard() == 0 {
		probes := []lreq{
			{Method: "GET", Bucket: "bk0", Key: "a", Family: "getObject"}, {Method: "GET", Bucket: "bk0", Family: "listBucket", Query: s3x.Q("prefix", "d/", "delimiter", "/")},
			{Method: "PUT", Bucket: "bk0", Key: "new", Body: []byte("n"), Family: "putObject"}, {Method: "DELETE", Bucket: "bk0", Key: "d/x", Family: "deleteObject"},
			{Method: "HEAD", Bucket: "bk0", Key: "d/x", Family: "headObject"}, {Method: "GET", Bucket: "bk1", Key: "a", Query: s3x.Q("versionId", "null"), Family: "getVersion"},
			{Method: "GET", Bucket: "bk0", Key: "a", Query: s3x.Q("uploadId", "1"), Family: "listParts"}, {Method: "GET", Bucket: "bk1", Query: s3x.Q("versions", s3x.Bare), Family: "listVersions"},
			{Method: "PUT", Bucket: "bk2", Family: "createBucket"}, {Method: "DELETE", Bucket: "bk1", Family: "deleteBucket"}, {Method: "POST", Bucket: "bk0", Key: "up", Query: s3x.Q("uploads", s3x.Bare), Family: "initiate"},
		}
		// the real binary: host bases given on the command line in both documented ways
		for _, v := range [][2][]string{
			{{"-hostbucketbase", "a.example", "-hostbucketbase", "b.example:9000"}, {"a.example", "b.example:9000"}},
			{{"-hostbucketbase", "a.example,b.example", "-hostbucketbase", "c.example"}, {"a.example", "b.example", "c.example"}},
			{{"-hostbucket", "-hostbucketbase", "a.example,b.example"}, {"a.example", "b.example"}},
		} {
			// the replay case carries the arguments and the bases in one list (first half / second half
			// would not fit three-element lists: stored separately below)
			cs := c16Case{Mode: "bases", Bases: v[1], Base: v[1][0], FallbackHost: strings.Join(v[0], " ")}
			ds := c16Binary(v[0], v[1])
			var real []disc
			for _, d := range ds {
				if strings.HasPrefix(d.Kind, "inconclusive:") {
					c.Unjudged(d.Detail)
					continue
				}
				real = append(real, d)
			}
			c.Case(evid.FP("binary", strings.Join(v[0], " ")), len(ds) == len(real), func() interface{} { return cs }, "check:binary", "src:fixed")
			report(c, "binary", real, cs)
		}
		{
			cs := c16Case{Mode: "bases", Bases: []string{"a.example"}, Base: "a.example", FallbackHost: "bk0.b.example"}
			c.Case(evid.FP("cross-servers"), true, func() interface{} { return cs }, "check:cross-servers", "src:fixed")
			report(c, "cross-servers", c16CrossServers(), cs)
		}
		// keys spelled like the endpoints servers keep for themselves: in virtual-host style they are
		// the whole request path
		var svc []lreq
		for _, key := range []string{"_health", "health", "healthz", "livez", "readyz", "metrics", "_status", "status", "ping", "favicon.ico", "robots.txt", "index.html", ".well-known/x", "minio/health/live", "debug/pprof", "api", "v1"} {
			svc = append(svc, lreq{Method: "PUT", Bucket: "bk0", Key: key, Body: []byte("object " + key), Family: "putObject"}, lreq{Method: "GET", Bucket: "bk0", Key: key, Family: "getObject"},
				lreq{Method: "HEAD", Bucket: "bk0", Key: key, Family: "headObject"}, lreq{Method: "GET", Bucket: "bk1", Key: key, Family: "getObject"}, lreq{Method: "DELETE", Bucket: "bk0", Key: key, Family: "deleteObject"})
		}
		// the longest bucket name there is (63 bytes, the longest DNS label)
		l63 := strings.Repeat("b", 31) + "-" + strings.Repeat("k", 31)
		for _, m := range c16Modes {
			cs := m
			cs.Setup = []prog.Op{{K: "mkbucket", B: l63}, {K: "put", B: l63, Key: "obj", Body: []byte("in the long bucket")}}
			cs.Requests = []lreq{{Method: "GET", Bucket: l63, Key: "obj", Family: "getObject"}, {Method: "PUT", Bucket: l63, Key: "some-key", Body: []byte("n"), Family: "putObject"},
				{Method: "GET", Bucket: l63, Family: "listBucket"}, {Method: "HEAD", Bucket: l63, Key: "some-key", Family: "headObject"}, {Method: "DELETE", Bucket: l63, Key: "obj", Family: "deleteObject"}}
			ds, sent := c16Exec(cs)
			record("twin", cs, ds, sent, "fixed-63-byte-bucket")
		}
		for _, m := range c16Modes {
			cs := m
			cs.Setup = setup
			cs.Requests = svc
			ds, sent := c16Exec(cs)
			record("twin", cs, ds, sent, "fixed-service-looking-keys")
		}
		// several clients at once, each with its own bucket in the Host header
		for _, m := range c16Modes {
			cs := m
			cs.Requests = []lreq{{Method: "PUT", Bucket: "client-N", Key: "key", Family: "stress"}, {Method: "GET", Bucket: "client-N", Key: "key", Family: "stress"}, {Method: "HEAD", Bucket: "client-N", Key: "key", Family: "stress"}}
			record("stress", cs, c16Stress(cs, 8, evid.Scale(300, 3000)), 8*evid.Scale(300, 3000), "fixed-stress")
		}
		// servers that create buckets on demand do so for the same names in either form of addressing
		for _, m := range c16AutoModes {
			cs := m
			cs.Setup = setup
			for _, bn := range []string{"fresh-bucket", "ab", "x", "UPPER", "My_Bucket", "a_b", "xn--0", "bk0"} {
				cs.Requests = append(cs.Requests, lreq{Method: "PUT", Bucket: bn, Key: "obj", Body: []byte("into " + bn), Family: "putObject"}, lreq{Method: "GET", Bucket: bn, Key: "obj", Family: "getObject"},
					lreq{Method: "GET", Bucket: bn, Family: "listBucket"}, lreq{Method: "HEAD", Bucket: bn + "-2", Key: "obj", Family: "headObject"}, lreq{Method: "DELETE", Bucket: bn, Key: "obj", Family: "deleteObject"})
			}
			ds, sent := c16Exec(cs)
			record("twin", cs, ds, sent, "fixed-auto-bucket")
		}
		for _, m := range c16Modes {
			cs := m
			cs.Setup = setup
			cs.Requests = probes
			record("slashes", cs, c16Slashes(cs), len(probes), "fixed")
			vias := []string{""}
			if m.Mode != "host" {
				vias = append(vias, c16Fallbacks(m)...)
			}
			for _, via := range vias {
				if strings.HasSuffix(via, ".") {
					continue
				}
				cl := m
				cl.FallbackHost = via
				cl.Requests = []lreq{{Method: "POST", Bucket: "bk0", Key: "dir/obj", Query: s3x.Q("uploadId", "1"), Family: "complete"}}
				record("location", cl, c16Location(cl, via), 4, "fixed-location")
			}
			if m.Mode != "host" {
				for _, fh := range c16Fallbacks(m) {
					cf := m
					cf.Setup, cf.Requests, cf.FallbackHost = setup, probes[:8], fh
					ds, sent := c16Exec(cf)
					record("twin", cf, ds, sent, "fixed-fallback")
				}
			}
		}
	}
	rapidRun(t, "twin", evid.Scale(2500, 40000), func(rt *rapid.T) {
		cs := rapid.SampledFrom(c16Modes).Draw(rt, "mode")
		if rapid.IntRange(0, 5).Draw(rt, "auto") == 0 {
			cs = rapid.SampledFrom(c16AutoModes).Draw(rt, "automode")
		}
		cs.Setup = setup
		// generator context from a scratch run of the setup
		scratch := backends.Must(backends.Mem, backends.Options{})
		sr := prog.NewRunner(scratch)
		for _, op := range cs.Setup {
			sr.Step(op)
		}
		ctx := ctxFromRunner(sr, rapid.SampledFrom([]int{0, 10, 30}).Draw(rt, "hostility"))
		scratch.Close()
		ctx.HostStyle = true
		n := rapid.IntRange(1, 12).Draw(rt, "n")
		for i := 0; i < n; i++ {
			cs.Requests = append(cs.Requests, genRequest(rt, ctx))
		}
		if cs.Mode != "host" && rapid.Bool().Draw(rt, "fb") {
			cs.FallbackHost = rapid.SampledFrom(c16Fallbacks(cs)).Draw(rt, "fbhost")
		}
		ds, sent := c16Exec(cs)
		if record("twin", cs, ds, sent, "random") {
			rt.Fatalf("C16 violated: %v", ds)
		}
	})
}

//go:build verif

package props

import (
	"bytes"
	"encoding/json"
	"encoding/xml"
	"fmt"
	"io"
	"os"
	"sort"
	"strings"
	"testing"
	"time"

	"verif/harness/backends"
	"verif/harness/evid"
	"verif/harness/prog"
	"verif/harness/s3x"

	"pgregory.net/rapid"
)

// C09 — every request gets a well-formed answer; no panic, hang or wedged state.

type c09Case struct {
	Backend  backends.Kind    `json:"backend"`
	Opts     backends.Options `json:"opts"`
	Setup    []prog.Op        `json:"setup"`
	Requests []lreq           `json:"requests"`
	// Large: the fixed large-object scenario (c09LargeCase) on this configuration
	Large bool `json:"large,omitempty"`
}

const c09Base = "s3.test"
const c09Canary = "canary-bucket"

func (l lreq) hostStyle(base string) *s3x.Req {
	rq := l.pathStyle()
	if l.Bucket == "" || l.RawPath != "" {
		return rq
	}
	p := "/" + l.Key
	if l.Slash == "trail" || l.Slash == "both" {
		if !strings.HasSuffix(p, "/") {
			p += "/"
		}
	}
	rq.Path = p
	rq.Host = l.Bucket + "." + base
	return rq
}

// wellFormed is oracle (3) of C09.
func wellFormed(rq *s3x.Req, r *s3x.Resp) []disc {
	if r.ParseError != "" {
		return nil // refused by net/http before reaching the handler
	}
	if r.TimedOut {
		return dsc("hang", "the handler did not return within the watchdog for %s %s", rq.Method, rq.Target())
	}
	if r.Panic != "" {
		return dsc("panic", "%s %s: %s at %s", rq.Method, trunc([]byte(rq.Target()), 200), r.Panic, r.PanicSite)
	}
	var ds []disc
	what := fmt.Sprintf("%s %s", rq.Method, trunc([]byte(rq.Target()), 160))
	if r.Status < 100 || r.Status > 599 {
		ds = append(ds, dsc("bad-status", "%s: status %d", what, r.Status)...)
	}
	if r.LateHeader {
		ds = append(ds, dsc("late-header", "%s: WriteHeader after body bytes were written (status %d, %d body bytes)", what, r.Status, r.BodyWritten)...)
	}
	if cl, ok := r.ContentLength(); ok && rq.Method != "HEAD" && r.Status != 304 && r.Status != 204 && cl != int64(len(r.Body)) {
		ds = append(ds, dsc("content-length-mismatch", "%s: Content-Length %d but %d body bytes written (status %d)", what, cl, len(r.Body), r.Status)...)
	}
	if r.Status >= 400 && rq.Method != "HEAD" && len(r.Body) > 0 {
		var e s3x.ErrorDoc
		if err := xml.Unmarshal(r.Body, &e); err != nil || e.Code == "" {
			ds = append(ds, dsc("error-body-not-s3", "%s: status %d with a body that is not an S3 error document: %q", what, r.Status, trunc(r.Body, 120))...)
		} else if !s3x.ErrorStatusOK(e.Code, r.Status) {
			ds = append(ds, dsc("error-code-status-mismatch", "%s: status %d with error code %s", what, r.Status, e.Code)...)
		}
	}
	if r.Status >= 200 && r.Status < 300 && bytes.HasPrefix(r.Body, []byte("<?xml")) {
		dec := xml.NewDecoder(bytes.NewReader(r.Body))
		for {
			_, err := dec.Token()
			if err == io.EOF {
				break
			}
			if err != nil {
				ds = append(ds, dsc("success-body-bad-xml", "%s: 2xx XML body does not parse: %v", what, err)...)
				break
			}
		}
	}
	return ds
}

const c09Watchdog = 20 * time.Second

type c09Env struct {
	st *backends.Stack
	r  *prog.Runner
	n  int
}

func (e *c09Env) do(rq *s3x.Req) *s3x.Resp {
	e.st.GuardReset()
	r := s3x.DoWith(e.st.Handler, rq, s3x.DoOpts{Timeout: c09Watchdog})
	if e.st.GuardTripped() {
		r.Panic = "runaway recursion in the backend's directory walk (would end in a fatal stack overflow)"
		r.PanicSite = "afero.Walk"
	}
	return r
}

func (e *c09Env) send(l lreq) (*s3x.Req, *s3x.Resp) {
	var rq *s3x.Req
	if e.st.Opts.HostBucket {
		rq = l.hostStyle(c09Base)
	} else {
		rq = l.pathStyle()
	}
	return rq, e.do(rq)
}

// canary: the server must still answer correct requests correctly.
func (e *c09Env) canary(fuzzedBucket string) []disc {
	e.n++
	var ds []disc
	body := []byte(fmt.Sprintf("canary %d", e.n))
	cb := c09Canary
	ck := fmt.Sprintf("canary-key-%d", e.n%3)
	if e.st.Kind.IsSingle() {
		cb = backends.SingleBucketName
		ck = "zz-canary/" + ck
	}
	step := func(l lreq, wantStatus int, check func(r *s3x.Resp) string) {
		rq, r := e.send(l)
		if d := wellFormed(rq, r); len(d) > 0 {
			for i := range d {
				d[i].Kind = "canary-" + d[i].Kind
			}
			ds = append(ds, d...)
			return
		}
		if r.Status != wantStatus {
			ds = append(ds, dsc("canary-failed", "canary %s %s/%s answered %s (want %d)", l.Method, l.Bucket, l.Key, r, wantStatus)...)
			return
		}
		if check != nil {
			if msg := check(r); msg != "" {
				ds = append(ds, dsc("canary-failed", "canary %s %s/%s: %s", l.Method, l.Bucket, l.Key, msg)...)
			}
		}
	}
	step(lreq{Method: "PUT", Bucket: cb, Key: ck, Body: body}, 200, func(r *s3x.Resp) string {
		if r.Header.Get("ETag") != etagOf(body) {
			return "wrong ETag " + r.Header.Get("ETag")
		}
		return ""
	})
	step(lreq{Method: "GET", Bucket: cb, Key: ck}, 200, func(r *s3x.Resp) string {
		if !bytes.Equal(r.Body, body) {
			return fmt.Sprintf("GET returned %q want %q", trunc(r.Body, 40), body)
		}
		return ""
	})
	listWant := 200
	if e.st.Opts.UnimplPageError && e.st.Kind != backends.Mem {
		listWant = 501 // configured to refuse pagination: every listing carries the default page size
	}
	step(lreq{Method: "GET", Bucket: cb, Query: s3x.Q("prefix", ck)}, listWant, func(r *s3x.Resp) string {
		if listWant != 200 {
			return ""
		}
		var d s3x.ListDoc
		if err := r.XML(&d); err != nil {
			return "listing does not parse: " + err.Error()
		}
		for _, c := range d.Contents {
			if c.Key == ck {
				return ""
			}
		}
		return fmt.Sprintf("canary key missing from listing (%d entries)", len(d.Contents))
	})
	step(lreq{Method: "DELETE", Bucket: cb, Key: ck}, 204, nil)
	step(lreq{Method: "GET", Bucket: cb, Key: ck}, 404, nil)
	// the fuzzed bucket: a listing must answer 200 or NoSuchBucket; if it exists put/get/delete work
	if fuzzedBucket != "" && fuzzedBucket != cb && oracleBucketOK(fuzzedBucket) {
		rq, r := e.send(lreq{Method: "GET", Bucket: fuzzedBucket, Query: s3x.Q("max-keys", "5")})
		if d := wellFormed(rq, r); len(d) > 0 {
			for i := range d {
				d[i].Kind = "canary-" + d[i].Kind
			}
			return append(ds, d...)
		}
		switch {
		case r.Status == 404 && r.ErrCode() == "NoSuchBucket":
		case r.Status == 501 && listWant == 501:
		case r.Status == 200:
			fk := "zz-canary-on-fuzzed-bucket"
			step(lreq{Method: "PUT", Bucket: fuzzedBucket, Key: fk, Body: body}, 200, nil)
			step(lreq{Method: "GET", Bucket: fuzzedBucket, Key: fk}, 200, func(r *s3x.Resp) string {
				if !bytes.Equal(r.Body, body) {
					return "GET on the fuzzed bucket returned other bytes"
				}
				return ""
			})
			step(lreq{Method: "DELETE", Bucket: fuzzedBucket, Key: fk}, 204, nil)
		default:
			ds = append(ds, dsc("canary-failed", "listing the fuzzed bucket %q answered %s", fuzzedBucket, r)...)
		}
	}
	return ds
}

// c09EdgeInts are values at the edges of the integer types a count or marker may be parsed into.
var c09EdgeInts = []string{"0", "2147483647", "2147483648", "4294967295", "4294967296", "9223372036854775806", "9223372036854775807"}

// sweep sends the listing requests of every kind with small page sizes and the markers the
// server hands back, and demands a well-formed answer for each.
func (e *c09Env) sweep(cs c09Case) (ds []disc) {
	buckets := []string{"bk0", "bk1"}
	if e.st.Kind.IsSingle() {
		buckets = []string{backends.SingleBucketName}
	}
	var ids []string
	for _, u := range e.r.M.Uploads {
		ids = append(ids, u.ID+"\x00"+u.B+"\x00"+u.Key)
	}
	check := func(l lreq) (*s3x.Resp, []disc) {
		l.Family = "sweep:" + l.Family
		rq, r := e.send(l)
		d := wellFormed(rq, r)
		for i := range d {
			d[i].Detail = "after the request stream, " + d[i].Detail
		}
		return r, d
	}
	// every key the history touched, addressed by the version ID "null" (whatever its history: stored
	// before or after versioning was enabled, once or often, deleted or not)
	nullKeys := func(b string) []string {
		var ks []string
		if mb := e.r.M.Buckets[b]; mb != nil {
			for k := range mb.Keys {
				ks = append(ks, k)
			}
		}
		sort.Strings(ks)
		return ks
	}
	for _, b := range buckets {
		for _, k := range nullKeys(b) {
			for _, m := range []string{"GET", "HEAD"} {
				if _, d := check(lreq{Method: m, Bucket: b, Key: k, Query: s3x.Q("versionId", "null"), Family: "nullVersion"}); len(d) > 0 {
					return d
				}
			}
		}
	}
	defer func() {
		if len(ds) > 0 {
			return
		}
		for _, b := range buckets {
			for i, k := range nullKeys(b) {
				l := lreq{Method: "DELETE", Bucket: b, Key: k, Query: s3x.Q("versionId", "null"), Family: "nullVersion"}
				if i%2 == 1 {
					l = lreq{Method: "POST", Bucket: b, Query: s3x.Q("delete", s3x.Bare), Body: []byte("<Delete><Object><Key>" + xmlEsc(k) + "</Key><VersionId>null</VersionId></Object></Delete>"), Family: "nullVersion"}
				}
				if _, d := check(l); len(d) > 0 {
					ds = d
					return
				}
			}
		}
	}()
	for _, b := range buckets {
		// a page size of zero together with a position (empty, or before the first key)
		for _, q := range [][][2]string{s3x.Q("max-keys", "0", "marker", ""), s3x.Q("max-keys", "0", "marker", "0"), s3x.Q("list-type", "2", "max-keys", "0", "start-after", "0"), s3x.Q("list-type", "2", "max-keys", "0", "continuation-token", "MA=="),
			s3x.Q("list-type", "2", "max-keys", "0", "continuation-token", ""), s3x.Q("versions", s3x.Bare, "max-keys", "0", "key-marker", "0"), s3x.Q("uploads", s3x.Bare, "max-uploads", "0", "key-marker", "0")} {
			if _, d := check(lreq{Method: "GET", Bucket: b, Query: q, Family: "zeroPage"}); len(d) > 0 {
				return d
			}
		}
		for _, v := range c09EdgeInts {
			for _, q := range [][][2]string{s3x.Q("max-keys", v), s3x.Q("list-type", "2", "max-keys", v), s3x.Q("versions", s3x.Bare, "max-keys", v), s3x.Q("uploads", s3x.Bare, "max-uploads", v)} {
				if _, d := check(lreq{Method: "GET", Bucket: b, Query: q, Family: "edgeInts"}); len(d) > 0 {
					return d
				}
			}
		}
		for n := 1; n <= 4; n++ {
			for _, delim := range []string{"", "/"} {
				q := func(kv ...string) [][2]string {
					if delim != "" {
						kv = append(kv, "delimiter", delim)
					}
					return s3x.Q(kv...)
				}
				// uploads: follow the markers for a few pages
				km, um := "", ""
				for page := 0; page < 6; page++ {
					kv := []string{"uploads", s3x.Bare, "max-uploads", fmt.Sprint(n)}
					if km != "" {
						kv = append(kv, "key-marker", km, "upload-id-marker", um)
					}
					r, d := check(lreq{Method: "GET", Bucket: b, Query: q(kv...), Family: "listUploads"})
					if len(d) > 0 {
						return d
					}
					var doc s3x.ListUploadsDoc
					if r.Status != 200 || r.XML(&doc) != nil || !doc.IsTruncated || doc.NextKeyMarker == "" {
						break
					}
					km, um = doc.NextKeyMarker, doc.NextUploadIdMarker
				}
				if _, d := check(lreq{Method: "GET", Bucket: b, Query: q("versions", s3x.Bare, "max-keys", fmt.Sprint(n)), Family: "listVersions"}); len(d) > 0 {
					return d
				}
				if _, d := check(lreq{Method: "GET", Bucket: b, Query: q("max-keys", fmt.Sprint(n)), Family: "listBucket"}); len(d) > 0 {
					return d
				}
				if _, d := check(lreq{Method: "GET", Bucket: b, Query: q("list-type", "2", "max-keys", fmt.Sprint(n)), Family: "listBucketV2"}); len(d) > 0 {
					return d
				}
			}
			for _, id := range ids {
				p := strings.SplitN(id, "\x00", 3)
				if p[1] != b {
					continue
				}
				if n == 1 {
					// completions that name one part number each, from 0 to two past the highest part the
					// upload holds (with an ETag no part has: they are refused and change nothing)
					top := 0
					for _, u := range e.r.M.Uploads {
						if u.ID == p[0] {
							for pn := range u.Parts {
								if pn > top {
									top = pn
								}
							}
						}
					}
					if top > 20 {
						top = 20
					}
					for pn := 0; pn <= top+2; pn++ {
						x := fmt.Sprintf(`<CompleteMultipartUpload><Part><PartNumber>%d</PartNumber><ETag>"%s"</ETag></Part></CompleteMultipartUpload>`, pn, strings.Repeat("0", 32))
						if _, d := check(lreq{Method: "POST", Bucket: b, Key: p[2], Query: s3x.Q("uploadId", p[0]), Body: []byte(x), Family: "completeOnePart"}); len(d) > 0 {
							return d
						}
					}
					// the integer parameters at the edges of their types, on an upload that exists
					for _, v := range c09EdgeInts {
						for _, name := range []string{"part-number-marker", "max-parts"} {
							if _, d := check(lreq{Method: "GET", Bucket: b, Key: p[2], Query: s3x.Q("uploadId", p[0], name, v), Family: "listParts"}); len(d) > 0 {
								return d
							}
						}
					}
				}
				for _, marker := range []string{"", "1", "2", "3", "10000"} {
					kv := []string{"uploadId", p[0], "max-parts", fmt.Sprint(n)}
					if marker != "" {
						kv = append(kv, "part-number-marker", marker)
					}
					if _, d := check(lreq{Method: "GET", Bucket: b, Key: p[2], Query: s3x.Q(kv...), Family: "listParts"}); len(d) > 0 {
						return d
					}
				}
			}
		}
	}
	return nil
}

func oracleBucketOK(b string) bool {
	if len(b) < 3 || len(b) > 63 {
		return false
	}
	for i := 0; i < len(b); i++ {
		c := b[i]
		if !((c >= 'a' && c <= 'z') || (c >= '0' && c <= '9') || c == '-') {
			return false
		}
	}
	return b[0] != '-' && b[len(b)-1] != '-'
}

func c09Exec(cs c09Case, onReq func(l lreq, rq *s3x.Req, r *s3x.Resp)) (ds []disc) {
	st := backends.Must(cs.Backend, cs.Opts)
	defer func() { st.Close() }()
	e := &c09Env{st: st, r: prog.NewRunner(st)}
	if st.Opts.HostBucket {
		e.r.Addr = func(bucket, rest string) (string, string) { return bucket + "." + c09Base, "/" + rest }
	}
	if !st.Kind.IsSingle() {
		if d := e.r.Step(prog.Op{K: "mkbucket", B: c09Canary}); len(d) > 0 {
			return d
		}
	}
	for i, op := range cs.Setup {
		if sd := e.r.Step(op); len(sd) > 0 {
			for j := range sd {
				sd[j].Kind = "setup:" + sd[j].Kind
				sd[j].Detail = fmt.Sprintf("setup step %d: %s", i, sd[j].Detail)
			}
			return sd
		}
	}
	defer func() {
		// whatever state the requests left behind, every paging entry point must still answer
		// well-formed for every small page size
		if len(ds) == 0 {
			ds = e.sweep(cs)
		}
	}()
	for i, l := range cs.Requests {
		if os.Getenv("VERIF_TRACE") != "" {
			fmt.Fprintf(os.Stderr, "TRACE %s %+v %s %s body=%q hdr=%v\n", cs.Backend, cs.Opts, l.Method, l.pathStyle().Target(), trunc(l.Body, 300), l.Header)
		}
		rq, r := e.send(l)
		if onReq != nil {
			onReq(l, rq, r)
		}
		d := wellFormed(rq, r)
		if len(d) == 0 && r.ParseError == "" {
			d = e.canary(l.Bucket)
		}
		if len(d) > 0 {
			for j := range d {
				d[j].Detail = fmt.Sprintf("request %d [%s]: %s", i, l.Family, d[j].Detail)
			}
			return d
		}
	}
	return nil
}

// c09GenSetup drives the store into a reachable state.
// c09Orphans: multipart uploads whose bucket is deleted under them (pending uploads do not keep a
// bucket from being deleted), optionally re-created afterwards.
func c09Orphans(recreate bool) []prog.Op {
	b := func(s string) []byte { return []byte(s) }
	ops := []prog.Op{{K: "mkbucket", B: "bk2"}, {K: "init", B: "bk2", Key: "a"}, {K: "init", B: "bk2", Key: "d/x"},
		{K: "part", Ref: 0, PartN: 1, Body: b("p1")}, {K: "part", Ref: 0, PartN: 2, Body: b("p2")}, {K: "part", Ref: 1, PartN: 3, Body: b("q3")},
		{K: "rmbucket", B: "bk2"}}
	if recreate {
		ops = append(ops, prog.Op{K: "mkbucket", B: "bk2"})
	}
	return ops
}

// c09LargeCase: objects of a few MiB through every request kind that moves their bytes inside the server.
func c09LargeCase(k backends.Kind, o backends.Options) c09Case {
	big := prog.Pattern(2<<20+77, 5)
	bigger := prog.Pattern(5<<20+3, 6)
	bkt := "bk0"
	if k.IsSingle() {
		bkt = backends.SingleBucketName
	}
	var setup []prog.Op
	if !k.IsSingle() && !o.AutoBucket {
		setup = append(setup, prog.Op{K: "mkbucket", B: bkt})
	}
	setup = append(setup, prog.Op{K: "put", B: bkt, Key: "big/object", Body: big}, prog.Op{K: "put", B: bkt, Key: "small", Body: []byte("s")})
	reqs := []lreq{
		{Family: "large:copy", Method: "PUT", Bucket: bkt, Key: "big/copy", Header: s3x.H("X-Amz-Copy-Source", "/"+bkt+"/big/object")},
		{Family: "large:copy-onto-itself", Method: "PUT", Bucket: bkt, Key: "big/object", Header: s3x.H("X-Amz-Copy-Source", "/"+bkt+"/big/object", "X-Amz-Meta-Again", "1")},
		{Family: "large:get", Method: "GET", Bucket: bkt, Key: "big/object"},
		{Family: "large:ranged-get", Method: "GET", Bucket: bkt, Key: "big/object", Header: s3x.H("Range", "bytes=1048570-1048590")},
		{Family: "large:overwrite", Method: "PUT", Bucket: bkt, Key: "big/object", Body: bigger},
		{Family: "large:copy-after-overwrite", Method: "PUT", Bucket: bkt, Key: "big/copy2", Header: s3x.H("X-Amz-Copy-Source", "/"+bkt+"/big/object")},
		{Family: "large:overwrite-by-small", Method: "PUT", Bucket: bkt, Key: "big/object", Body: []byte("tiny")},
		{Family: "large:delete", Method: "DELETE", Bucket: bkt, Key: "big/copy"},
	}
	return c09Case{Backend: k, Opts: o, Setup: setup, Requests: reqs}
}

func c09GenSetup(rt *rapid.T, k backends.Kind, opts backends.Options) []prog.Op {
	var ops []prog.Op
	b := func(s string) []byte { return []byte(s) }
	if !k.IsSingle() && !opts.AutoBucket {
		ops = append(ops, prog.Op{K: "mkbucket", B: "bk0"})
		if rapid.Bool().Draw(rt, "bk1") {
			ops = append(ops, prog.Op{K: "mkbucket", B: "bk1"})
		}
	}
	scen := rapid.SampledFrom([]string{"empty", "objects", "versioned", "uploads", "many", "mixed", "orphans"}).Draw(rt, "scenario")
	if scen == "orphans" {
		if k.IsSingle() || opts.AutoBucket {
			scen = "uploads"
		} else {
			ops = append(ops, c09Orphans(rapid.Bool().Draw(rt, "recreate"))...)
		}
	}
	versioned := k == backends.Mem && !opts.NoVersioning
	if scen == "objects" || scen == "mixed" || scen == "many" {
		ops = append(ops, prog.Op{K: "put", B: "bk0", Key: "a", Body: b("0123456789"), Meta: [][2]string{{"X-Amz-Meta-S", "s"}}},
			prog.Op{K: "put", B: "bk0", Key: "d/x", Body: b("dx")}, prog.Op{K: "put", B: "bk0", Key: "d/e/z", Body: b("")})
	}
	if scen == "many" {
		for i := 0; i < 25; i++ {
			ops = append(ops, prog.Op{K: "put", B: "bk0", Key: fmt.Sprintf("m/%02d", i), Body: b("m")})
		}
	}
	if (scen == "versioned" || scen == "mixed") && versioned {
		ops = append(ops, prog.Op{K: "setver", B: "bk0", Status: "Enabled"},
			prog.Op{K: "put", B: "bk0", Key: "a", Body: b("v1")}, prog.Op{K: "put", B: "bk0", Key: "a", Body: b("v2-longer")},
			prog.Op{K: "put", B: "bk0", Key: "d/x", Body: b("only")}, prog.Op{K: "del", B: "bk0", Key: "d/x"},
			prog.Op{K: "put", B: "bk0", Key: "new-key", Body: b("n")}, prog.Op{K: "del", B: "bk0", Key: "a"})
		switch rapid.IntRange(0, 3).Draw(rt, "vtail") {
		case 0:
			ops = append(ops, prog.Op{K: "delver", B: "bk0", Key: "a", Ref: -1})
		case 1:
			ops = append(ops, prog.Op{K: "setver", B: "bk0", Status: "Suspended"}, prog.Op{K: "put", B: "bk0", Key: "a", Body: b("susp")})
		case 2:
			ops = append(ops, prog.Op{K: "setver", B: "bk0", Status: "Suspended"}, prog.Op{K: "del", B: "bk0", Key: "new-key"})
		}
	}
	if scen == "uploads" || scen == "mixed" {
		ops = append(ops, prog.Op{K: "init", B: "bk0", Key: "a"}, prog.Op{K: "init", B: "bk0", Key: "d/x", Meta: [][2]string{{"X-Amz-Meta-U", "u"}}}, prog.Op{K: "init", B: "bk0", Key: "a"},
			prog.Op{K: "part", Ref: 0, PartN: 1, Body: b("p1")}, prog.Op{K: "part", Ref: 0, PartN: 3, Body: b("p3")}, prog.Op{K: "part", Ref: 1, PartN: 2, Body: b("q2")},
			prog.Op{K: "part", Ref: 1, PartN: 10000, Body: b("q10000")})
		switch rapid.IntRange(0, 4).Draw(rt, "finish") {
		case 1:
			ops = append(ops, prog.Op{K: "complete", Ref: 2, Parts: nil}, prog.Op{K: "abort", Ref: 2})
		case 2:
			// the only upload of the last key goes away: its key must leave the upload index
			ops = append(ops, prog.Op{K: "abort", Ref: 1})
		case 3:
			ops = append(ops, prog.Op{K: "complete", Ref: 1, Parts: []prog.Part{{N: 2}, {N: 10000}}})
		case 4:
			ops = append(ops, prog.Op{K: "abort", Ref: 0}, prog.Op{K: "abort", Ref: 2}, prog.Op{K: "init", B: "bk0", Key: "zz/last"}, prog.Op{K: "abort", Ref: 3})
		}
	}
	return ops
}

func c09Configs(kinds []backends.Kind) []struct {
	K backends.Kind
	O backends.Options
} {
	var out []struct {
		K backends.Kind
		O backends.Options
	}
	for _, k := range kinds {
		opts := []backends.Options{{}, {HostBucket: true}, {TimeSkew: true}}
		opts = append(opts, backends.Options{AutoBucket: true})
		if k == backends.Mem {
			opts = append(opts, backends.Options{NoVersioning: true}, backends.Options{UnimplPageError: true, IntegrityOff: true})
		}
		if k == backends.Bolt {
			opts = append(opts, backends.Options{UnimplPageError: true})
		}
		for _, o := range opts {
			out = append(out, struct {
				K backends.Kind
				O backends.Options
			}{k, o})
		}
	}
	return out
}

func c09Replay(check string, raw json.RawMessage) ([]disc, error) {
	var cs c09Case
	if err := json.Unmarshal(raw, &cs); err != nil {
		return nil, err
	}
	if cs.Large {
		cs = c09LargeCase(cs.Backend, cs.Opts)
	}
	return c09Exec(cs, nil), nil
}

func TestC09(t *testing.T) {
	runProp(t, propDef{
		ID:    "C09",
		Level: "exploration",
		Rule: "cases = (backend x option set, setup program, request sequence); requests are drawn from a grammar of the routed surface (44 handler families: list V1/V2, location, versioning, versions, bucket create/delete/head, multi-delete, form upload, object get/head/put/copy/chunked put/delete, version get/head/delete, " +
			"multipart initiate/part/complete/abort/list-parts/list-uploads, OPTIONS, odd methods, odd sub-resources, raw paths) with parameter values that are valid in the current state (live keys, version IDs, upload IDs, tokens) or hostile (boundary integers, bad base64, long/UTF-8 strings, mutated XML, hostile copy sources); " +
			"setups drive the store into empty / objects / versioned-with-delete-markers / pending-uploads / many-keys states; after every request: no panic, returned, one status, error body is an S3 error document consistent with the status, Content-Length consistent, then a canary sequence on another bucket and on the fuzzed bucket; " +
			"non-trivial = a request that reached a handler family with at least one non-default parameter (query, header or body); distinct by (configuration, request)",
		Replay: c09Replay,
		Run:    c09Run,
	})
}

func c09Prop(c *evid.Collector, cfgs []struct {
	K backends.Kind
	O backends.Options
}, nreq int) func(rt *rapid.T) {
	return func(rt *rapid.T) {
		cfg := rapid.SampledFrom(cfgs).Draw(rt, "config")
		cs := c09Case{Backend: cfg.K, Opts: cfg.O}
		cs.Setup = c09GenSetup(rt, cfg.K, cfg.O)
		// the generator needs the model state the setup produces: run it on a scratch stack
		scratch := backends.Must(backends.Mem, backends.Options{AutoBucket: true})
		sr := prog.NewRunner(scratch)
		for _, op := range cs.Setup {
			sr.Step(op)
		}
		ctx := ctxFromRunner(sr, rapid.SampledFrom([]int{25, 50, 75}).Draw(rt, "hostility"))
		scratch.Close()
		if cfg.K.IsSingle() {
			ctx.Buckets = []string{backends.SingleBucketName}
		}
		ctx.HostStyle = cfg.O.HostBucket
		ctx.NoDotKeys = cfg.K.IsFs()
		// upload IDs are deterministic (1,2,3…) so the scratch model's IDs equal the real ones
		n := rapid.IntRange(1, nreq).Draw(rt, "nreq")
		for i := 0; i < n; i++ {
			cs.Requests = append(cs.Requests, genRequest(rt, ctx))
		}
		var onReq func(l lreq, rq *s3x.Req, r *s3x.Resp)
		if c != nil {
			onReq = func(l lreq, rq *s3x.Req, r *s3x.Resp) {
				nt := r.ParseError == "" && (len(l.Query) > 0 || len(l.Header) > 0 || len(l.Body) > 0)
				labels := []string{"family:" + l.Family, "backend:" + string(cfg.K)}
				if r.ParseError != "" {
					labels = append(labels, "refused-by-net/http")
				} else {
					labels = append(labels, fmt.Sprintf("status:%dxx", r.Status/100))
				}
				if cfg.O.HostBucket {
					labels = append(labels, "opt:host-bucket")
				}
				if cfg.O.AutoBucket {
					labels = append(labels, "opt:auto-bucket")
				}
				if cfg.O.NoVersioning {
					labels = append(labels, "opt:no-versioning")
				}
				if cfg.O.TimeSkew {
					labels = append(labels, "opt:time-skew")
				}
				c.Case(evid.FP(string(cfg.K), mustJSON(cfg.O), mustJSON(l)), nt, func() interface{} {
					s := l
					if len(s.Body) > 80 {
						s.Body = s.Body[:80]
					}
					return s
				}, labels...)
			}
		}
		ds := c09Exec(cs, onReq)
		if c != nil {
			if report(c, "request", ds, cs) {
				rt.Fatalf("C09 violated: %v", ds)
			}
		} else if len(ds) > 0 {
			for _, d := range ds {
				if d.KF != "" && evid.Open(d.KF) {
					continue
				}
				rt.Fatalf("C09 violated: %v", d)
			}
		}
	}
}

func c09Run(t *testing.T, c *evid.Collector) {
	cfgs := c09Configs(kindsFromEnv(backends.All))
	// fixed: every multipart request kind addressed to an upload whose bucket is gone (ignores the seed)
	if evid.Shard() == 0 {
		q := func(kv ...string) [][2]string { return s3x.Q(kv...) }
		complete := func(parts ...string) []byte {
			x := "<CompleteMultipartUpload>"
			for i := 0; i+1 < len(parts); i += 2 {
				x += "<Part><PartNumber>" + parts[i] + "</PartNumber><ETag>" + xmlEsc(prog.ETag([]byte(parts[i+1]))) + "</ETag></Part>"
			}
			return []byte(x + "</CompleteMultipartUpload>")
		}
		reqs := []lreq{
			{Family: "orphan:listParts", Method: "GET", Bucket: "bk2", Key: "a", Query: q("uploadId", "1")},
			{Family: "orphan:uploadPart", Method: "PUT", Bucket: "bk2", Key: "a", Query: q("partNumber", "5", "uploadId", "1"), Body: []byte("late")},
			{Family: "orphan:listUploads", Method: "GET", Bucket: "bk2", Query: q("uploads", s3x.Bare)},
			{Family: "orphan:complete", Method: "POST", Bucket: "bk2", Key: "a", Query: q("uploadId", "1"), Body: complete("1", "p1", "2", "p2")},
			{Family: "orphan:complete-subset", Method: "POST", Bucket: "bk2", Key: "d/x", Query: q("uploadId", "2"), Body: complete("3", "q3")},
			{Family: "orphan:complete-invalid", Method: "POST", Bucket: "bk2", Key: "a", Query: q("uploadId", "1"), Body: complete("1", "wrong")},
			{Family: "orphan:abort", Method: "DELETE", Bucket: "bk2", Key: "a", Query: q("uploadId", "1")},
			{Family: "orphan:initiate", Method: "POST", Bucket: "bk2", Key: "new", Query: q("uploads", s3x.Bare)},
			{Family: "orphan:put", Method: "PUT", Bucket: "bk2", Key: "a", Body: []byte("x")},
		}
		violated := false // a hang costs a watchdog period per request: one report is enough
		for _, cfg := range cfgs {
			if cfg.K.IsSingle() || cfg.O.AutoBucket {
				continue
			}
			for _, recreate := range []bool{false, true} {
				for i := range reqs {
					if violated {
						break
					}
					// each request first, then all of them in order
					cs := c09Case{Backend: cfg.K, Opts: cfg.O, Setup: append([]prog.Op{{K: "mkbucket", B: "bk0"}}, c09Orphans(recreate)...), Requests: append([]lreq{reqs[i]}, reqs...)}
					ds := c09Exec(cs, func(l lreq, rq *s3x.Req, r *s3x.Resp) {
						c.Case(evid.FP("orphan", string(cfg.K), mustJSON(cfg.O), fmt.Sprint(recreate, i), mustJSON(l)), true, func() interface{} { return l }, "family:"+l.Family, "backend:"+string(cfg.K), "src:fixed-orphans")
					})
					violated = report(c, "request", ds, cs)
				}
			}
		}
	}
	// fixed: objects of a few MiB (beyond any plausible internal threshold) through every request kind
	// that moves their bytes inside the server (ignores the seed)
	if evid.Shard() == 0 {
		for _, cfg := range cfgs {
			cfg := cfg
			cs := c09LargeCase(cfg.K, cfg.O)
			ds := c09Exec(cs, func(l lreq, rq *s3x.Req, r *s3x.Resp) {
				c.Case(evid.FP("large", string(cfg.K), mustJSON(cfg.O), l.Family), true, func() interface{} {
					s := l
					if len(s.Body) > 80 {
						s.Body = s.Body[:80]
					}
					return s
				}, "family:"+l.Family, "backend:"+string(cfg.K), "src:fixed-large-objects")
			})
			// the replay file names the scenario instead of carrying megabytes of bodies
			report(c, "request", ds, c09Case{Backend: cfg.K, Opts: cfg.O, Large: true})
		}
	}
	rapidRun(t, "grammar", evid.Scale(1100, 25000), c09Prop(c, cfgs, 25))
}

// FuzzC09 is the coverage-guided target of the thorough tier: the same
// property, driven by the native fuzzer's byte stream through rapid.MakeFuzz.
func FuzzC09(f *testing.F) {
	cfgs := c09Configs([]backends.Kind{backends.Mem, backends.Bolt, backends.MultiMem, backends.SingleMem})
	f.Fuzz(rapid.MakeFuzz(c09Prop(nil, cfgs, 12)))
}

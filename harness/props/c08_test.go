//go:build verif

package props

import (
	"bytes"
	"crypto/md5"
	"crypto/sha256"
	"encoding/base64"
	"encoding/hex"
	"encoding/json"
	"fmt"
	"mime/multipart"
	"sort"
	"strings"
	"testing"

	"verif/harness/backends"
	"verif/harness/evid"
	"verif/harness/oracle"
	"verif/harness/s3x"

	"pgregory.net/rapid"
)

// C08 — corrupt or short uploads are rejected and never change stored state.

type c08Case struct {
	Backend      backends.Kind `json:"backend"`
	IntegrityOff bool          `json:"integrityOff,omitempty"`
	Prior        string        `json:"prior"` // absent | present | upload (pending multipart upload with parts; the object also exists)
	Kind         string        `json:"kind"`  // put | chunked | part | post | copy (server-side copy of dir/neighbour onto the key)
	Fault        string        `json:"fault"`
	Body         bodySpec      `json:"body"`
	K            int           `json:"k,omitempty"`
	Frag         s3x.Frag      `json:"frag,omitempty"`
	FreshDir     bool          `json:"freshDir,omitempty"` // (prior absent) the key lies below "directories" that hold no other key
	// PayloadHash (put / part with a digest fault or none): the request also carries the correct
	// hex SHA-256 of its body in X-Amz-Content-Sha256, as a signing client sends it; a right payload
	// hash does not make up for a wrong Content-MD5
	PayloadHash bool `json:"payloadHash,omitempty"`
	// Streamed (part with a digest fault or none): the part's bytes arrive aws-chunked; the
	// Content-MD5 is that of the part's bytes, as for an object uploaded that way
	Streamed bool `json:"streamed,omitempty"`
}

const c08Key = "dir/victim.bin"
const c08FreshKey = "fresh/deeper/victim.bin"

// c08OldPart: the accepted parts of the pending upload (part 2 is long, so that a rejected
// re-upload of it is usually shorter than what is stored).
func c08OldPart(n int) []byte {
	return []byte(fmt.Sprintf("old part %d %s", n, strings.Repeat("=", n*150)))
}

var c08OldBody = []byte("the previously stored object - must survive every rejected upload")

// c08MultiByteKey: more than 1024 bytes but fewer than 1024 characters (the limit counts bytes),
// in segments a directory entry can hold.
func c08MultiByteKey(k int) string {
	seg := strings.Repeat("é", 100) // 200 bytes
	key := "mb"
	for len(key) <= 1024+k%40 {
		key += "/" + seg
	}
	return key
}

// verdicts
const (
	mustAccept = iota
	mustReject
	either
)

// c08Build builds the faulty request and says what the statement demands.
func c08Build(cs c08Case, uploadID string, metaLimit int) (rq *s3x.Req, verdict int, wantCode string, payload []byte, key string) {
	body := cs.Body.bytes()
	payload = body
	key = c08Key
	if cs.FreshDir && cs.Prior == "absent" && cs.Kind != "part" {
		key = c08FreshKey
	}
	rq = &s3x.Req{Method: "PUT", Path: "/bk0/" + key, Body: body, Frag: cs.Frag}
	verdict = mustAccept
	switch cs.Kind {
	case "copy":
		// an upload by copy: the bytes are those of the (always present) neighbour object
		body = []byte("neighbour")
		payload = body
		rq.Body = nil
		rq.Header = s3x.H("X-Amz-Copy-Source", "/bk0/dir/neighbour")
	case "chunked":
		rq.Body = oracle.ChunkedEncode(body, []int{cs.K%7000 + 1, 33000})
		rq.Header = s3x.H("X-Amz-Content-Sha256", "STREAMING-AWS4-HMAC-SHA256-PAYLOAD", "X-Amz-Decoded-Content-Length", fmt.Sprint(len(body)), "Content-Encoding", "aws-chunked")
	case "part":
		rq.Query = s3x.Q("partNumber", "2", "uploadId", uploadID)
		if len(body) == 0 {
			// an empty part is not a valid part upload; not the fault under test
			body = []byte("x")
			payload = body
			rq.Body = body
		}
	case "post":
		rq = nil
	}
	sum := md5.Sum(payload)
	good := base64.StdEncoding.EncodeToString(sum[:])
	addH := func(k, v string) { rq.Header = append(rq.Header, [2]string{k, v}) }
	intOn := !cs.IntegrityOff

	if cs.Kind == "post" {
		var buf bytes.Buffer
		mw := multipart.NewWriter(&buf)
		k := key
		nfiles := 1
		withKey := true
		switch cs.Fault {
		case "none":
		case "key-too-long":
			k = strings.Repeat("k", 1025+cs.K%2000)
			verdict, wantCode = mustReject, "KeyTooLongError"
		case "key-too-long-multibyte":
			k = c08MultiByteKey(cs.K)
			verdict, wantCode = mustReject, "KeyTooLongError"
		case "key-1024":
			k = "p/" + strings.Repeat("k", 200) + "/" + strings.Repeat("m", 200) + "/" + strings.Repeat("n", 200) + "/" + strings.Repeat("o", 200) + "/"
			k += strings.Repeat("q", 1024-len(k))
		case "key-long-segment":
			k = []string{"fresh-dir/sub/" + strings.Repeat("s", 256+cs.K%300), "fresh-dir/" + strings.Repeat("s", 256+cs.K%300) + "/leaf", strings.Repeat("s", 300)}[cs.K%3]
			verdict = either
		case "no-key":
			withKey = false
			verdict = mustReject
		case "no-file":
			nfiles = 0
			verdict = mustReject
		case "two-files":
			nfiles = 2
			verdict = mustReject
		case "truncated-form":
			verdict = mustReject // relaxed below when only the tail of the closing delimiter is cut
		case "short-body":
			// bytes missing *after* the closing delimiter: the form itself is complete and
			// the file part carries no declared length, so the statement does not decide this
			verdict = either
		}
		key = k
		if withKey {
			mw.WriteField("key", k)
		}
		for i := 0; i < nfiles; i++ {
			fw, _ := mw.CreateFormFile("file", fmt.Sprintf("f%d.bin", i))
			fw.Write(body)
		}
		mw.Close()
		b := buf.Bytes()
		rq = &s3x.Req{Method: "POST", Path: "/bk0", Header: s3x.H("Content-Type", mw.FormDataContentType()), Body: b, Frag: cs.Frag}
		switch cs.Fault {
		case "truncated-form":
			cut := len(b) - 1 - cs.K%(len(b)/2+1)
			rq.Body = b[:cut]
			if len(b)-cut < len("\r\n--"+mw.Boundary()+"--\r\n") {
				verdict = either // only (part of) the closing delimiter is missing
			}
		case "short-body":
			rq.ContentLength = s3x.I64(int64(len(b) + 1 + cs.K%50))
		}
		return
	}

	switch cs.Fault {
	case "none":
	case "md5-correct":
		addH("Content-MD5", good)
	case "md5-wrong":
		other := md5.Sum(append([]byte("x"), payload...))
		addH("Content-MD5", base64.StdEncoding.EncodeToString(other[:]))
		if intOn {
			verdict, wantCode = mustReject, "BadDigest"
		}
	case "md5-badb64":
		addH("Content-MD5", "!!!not-base64!!!")
		if intOn {
			verdict, wantCode = mustReject, "InvalidDigest"
		}
	case "md5-15bytes":
		addH("Content-MD5", base64.StdEncoding.EncodeToString(sum[:15]))
		if intOn {
			verdict, wantCode = mustReject, "InvalidDigest"
		}
	case "md5-17bytes":
		addH("Content-MD5", base64.StdEncoding.EncodeToString(append(sum[:], 0)))
		if intOn {
			verdict, wantCode = mustReject, "InvalidDigest"
		}
	case "md5-empty":
		addH("Content-MD5", "")
		if intOn {
			verdict, wantCode = mustReject, "InvalidDigest"
		}
	case "md5-hex":
		addH("Content-MD5", md5hex(payload)) // hex instead of base64: decodes to 24 bytes
		if intOn {
			verdict, wantCode = mustReject, "InvalidDigest"
		}
	case "short-body":
		// declared length larger than the bytes delivered
		extra := 1 + cs.K%(len(rq.Body)+3)
		rq.ContentLength = s3x.I64(int64(len(rq.Body) + extra))
		verdict = mustReject
	case "truncated-body":
		// the declared length is that of the whole body, which stops 1 + K%len bytes early (for an
		// aws-chunked upload that can be inside the framing after the last payload byte)
		if len(rq.Body) == 0 {
			rq.Body = []byte("abc")
			if cs.Kind == "chunked" {
				rq.Body = oracle.ChunkedEncode([]byte("abc"), nil)
			}
		}
		rq.ContentLength = s3x.I64(int64(len(rq.Body)))
		rq.Body = rq.Body[:len(rq.Body)-1-cs.K%len(rq.Body)]
		verdict = mustReject
	case "short-body-all":
		rq.ContentLength = s3x.I64(int64(len(rq.Body)))
		if len(rq.Body) == 0 {
			rq.ContentLength = s3x.I64(5)
		}
		rq.Body = nil
		if cs.Kind == "put" && len(body) == 0 {
			rq.ContentLength = s3x.I64(5)
		}
		verdict = mustReject
	case "reader-fails":
		// the body reader returns an error after K bytes (K < len)
		if len(rq.Body) == 0 {
			rq.Body = []byte("abc")
			if cs.Kind == "chunked" {
				rq.Body = oracle.ChunkedEncode([]byte("abc"), nil)
			}
		}
		rq.UseFail, rq.FailAfter = true, cs.K%len(rq.Body)
		verdict = mustReject
	case "decoded-len-larger":
		// chunked only: declared decoded length larger than the decoded payload
		setHeader(rq, "X-Amz-Decoded-Content-Length", fmt.Sprint(len(body)+1+cs.K%9))
		verdict = mustReject
	case "decoded-len-smaller":
		if len(body) == 0 {
			body = []byte("abcdef")
			payload = body
			rq.Body = oracle.ChunkedEncode(body, nil)
		}
		setHeader(rq, "X-Amz-Decoded-Content-Length", fmt.Sprint(len(body)-1-cs.K%len(body)))
		verdict = mustReject
	case "decoded-len-garbage":
		setHeader(rq, "X-Amz-Decoded-Content-Length", "12abc")
		verdict = mustReject
	case "key-1023", "key-1024":
		n := 1023
		if cs.Fault == "key-1024" {
			n = 1024
		}
		key = "d/" + strings.Repeat("k", 200) + "/" + strings.Repeat("m", 200) + "/" + strings.Repeat("n", 200) + "/" + strings.Repeat("o", 200) + "/"
		key += strings.Repeat("p", n-len(key))
		rq.Path = "/bk0/" + key
	case "key-long-segment":
		// inside S3's key domain (<= 1024 bytes), but with a path segment no directory entry of a
		// real file system can hold: a backend may refuse it - without leaving anything behind
		key = []string{"fresh-dir/sub/" + strings.Repeat("s", 256+cs.K%300), "fresh-dir/" + strings.Repeat("s", 256+cs.K%300) + "/leaf", strings.Repeat("s", 300)}[cs.K%3]
		rq.Path = "/bk0/" + key
		verdict = either
	case "key-too-long":
		n := 1025 + cs.K%2000
		key = "d/" + strings.Repeat("k", 200) + "/" + strings.Repeat("m", 200) + "/" + strings.Repeat("n", 200) + "/" + strings.Repeat("o", 200) + "/" + strings.Repeat("p", 200) + "/"
		for len(key) < n {
			key += "q"
			if len(key)%201 == 0 && len(key) < n-1 {
				key += "/"
			}
		}
		key = key[:n]
		if strings.HasSuffix(key, "/") {
			key = key[:n-1] + "z"
		}
		rq.Path = "/bk0/" + key
		verdict, wantCode = mustReject, "KeyTooLongError"
	case "key-too-long-multibyte":
		key = c08MultiByteKey(cs.K)
		rq.Path = "/bk0/" + key
		verdict, wantCode = mustReject, "KeyTooLongError"
	case "meta-small":
		addH("X-Amz-Meta-Pad", strings.Repeat("v", 100))
	case "meta-around":
		// within +-300 bytes of the limit: either
		addH("X-Amz-Meta-Pad", strings.Repeat("v", metaLimit-150+cs.K%300))
		verdict = either
	case "meta-too-large":
		addH("X-Amz-Meta-Pad", strings.Repeat("v", metaLimit+1+cs.K%3000))
		verdict, wantCode = mustReject, "MetadataTooLarge"
	case "meta-many-too-large":
		for i := 0; i*60 < metaLimit+100; i++ {
			addH(fmt.Sprintf("X-Amz-Meta-H%03d", i), strings.Repeat("w", 50))
		}
		verdict, wantCode = mustReject, "MetadataTooLarge"
	case "no-content-length":
		rq.OmitContentLength = true
		verdict, wantCode = mustReject, "MissingContentLength"
	case "te-chunked":
		// HTTP transfer-encoding chunked: no Content-Length reaches the handler
		var b bytes.Buffer
		fmt.Fprintf(&b, "%x\r\n", len(rq.Body))
		b.Write(rq.Body)
		b.WriteString("\r\n0\r\n\r\n")
		rq.Body = b.Bytes()
		rq.OmitContentLength = true
		addH("Transfer-Encoding", "chunked")
		verdict, wantCode = mustReject, "MissingContentLength"
	}
	if cs.Fault == "meta-around" {
		// What exactly counts towards the metadata limit is not stated. S3's own definition
		// (names plus values of the x-amz-meta-* headers) is the least any definition counts, and
		// every header the server stores (x-amz-*, Content-Type/-Disposition/-Encoding, plus the
		// Last-Modified entry it adds itself: 13 + 29 bytes) the most.
		user, all := 0, 13+29
		for _, kv := range rq.Header {
			name := httpCanon(kv[0])
			if strings.HasPrefix(name, "X-Amz-Meta-") {
				user += len(name) + len(kv[1])
			}
			if strings.HasPrefix(name, "X-Amz-") || name == "Content-Type" || name == "Content-Disposition" || name == "Content-Encoding" {
				all += len(name) + len(kv[1])
			}
		}
		switch {
		case user > metaLimit:
			verdict, wantCode = mustReject, "MetadataTooLarge"
		case all <= metaLimit:
			verdict = mustAccept
		default:
			verdict = either
		}
	}
	if cs.Kind == "part" {
		switch cs.Fault {
		case "key-1023", "key-1024", "key-too-long", "key-too-long-multibyte", "key-long-segment", "meta-small", "meta-around", "meta-too-large", "meta-many-too-large":
			// not faults of a part upload (the key/metadata belong to the initiation)
			verdict = either
		}
	}
	if cs.Streamed && cs.Kind == "part" && (cs.Fault == "none" || strings.HasPrefix(cs.Fault, "md5-")) {
		rq.Body = oracle.ChunkedEncode(payload, []int{cs.K%50 + 1, 33000})
		addH("X-Amz-Content-Sha256", "STREAMING-AWS4-HMAC-SHA256-PAYLOAD")
		addH("X-Amz-Decoded-Content-Length", fmt.Sprint(len(payload)))
		return
	}
	if cs.PayloadHash && (cs.Kind == "put" || cs.Kind == "part") && (cs.Fault == "none" || strings.HasPrefix(cs.Fault, "md5-")) {
		h := sha256.Sum256(rq.Body)
		addH("X-Amz-Content-Sha256", hex.EncodeToString(h[:]))
	}
	return
}

func setHeader(rq *s3x.Req, k, v string) {
	for i := range rq.Header {
		if strings.EqualFold(rq.Header[i][0], k) {
			rq.Header[i][1] = v
			return
		}
	}
	rq.Header = append(rq.Header, [2]string{k, v})
}

var c08Faults = map[string][]string{
	"put": {"none", "md5-correct", "md5-wrong", "md5-badb64", "md5-15bytes", "md5-17bytes", "md5-empty", "md5-hex", "short-body", "short-body-all", "truncated-body",
		"reader-fails", "key-1023", "key-1024", "key-too-long", "key-too-long-multibyte", "key-long-segment", "meta-small", "meta-around", "meta-too-large", "meta-many-too-large", "no-content-length", "te-chunked"},
	"chunked": {"none", "md5-correct", "md5-wrong", "md5-badb64", "short-body", "truncated-body", "reader-fails", "decoded-len-larger", "decoded-len-smaller", "decoded-len-garbage",
		"key-too-long", "meta-too-large"},
	"part": {"none", "md5-correct", "md5-wrong", "md5-badb64", "md5-15bytes", "md5-17bytes", "md5-empty", "short-body", "short-body-all", "truncated-body", "reader-fails", "no-content-length", "te-chunked"},
	"post": {"none", "key-too-long", "key-too-long-multibyte", "key-1024", "key-long-segment", "no-key", "no-file", "two-files", "truncated-form", "short-body"},
	"copy": {"none", "key-1023", "key-1024", "key-too-long", "key-too-long-multibyte", "key-long-segment", "meta-small", "meta-too-large", "meta-many-too-large"},
}

// c08Snapshot captures everything the statement says must stay the same.
func c08Snapshot(st *backends.Stack, keys []string, uploadID, uploadKey string) string {
	var sb strings.Builder
	for _, k := range keys {
		for _, m := range []string{"GET", "HEAD"} {
			r := s3x.Do(st.Handler, &s3x.Req{Method: m, Path: "/bk0/" + k})
			fmt.Fprintf(&sb, "%s %s -> %d body=%s len=%s etag=%s", m, trunc([]byte(k), 30), r.Status, md5hex(r.Body), r.Header.Get("Content-Length"), r.Header.Get("ETag"))
			var hs []string
			for h, v := range r.Header {
				if strings.HasPrefix(h, "X-Amz-Meta-") || h == "Content-Type" || h == "Content-Encoding" || h == "Content-Disposition" {
					hs = append(hs, h+"="+strings.Join(v, ","))
				}
			}
			sort.Strings(hs)
			fmt.Fprintf(&sb, " meta=%v panic=%s\n", hs, r.Panic)
		}
	}
	doc, r := listDoc(st, "bk0")
	if doc == nil {
		fmt.Fprintf(&sb, "LIST -> %s\n", r)
	} else {
		var es []string
		for _, c := range doc.Contents {
			es = append(es, fmt.Sprintf("%s:%d:%s", trunc([]byte(c.Key), 40), c.Size, c.ETag))
		}
		sort.Strings(es)
		fmt.Fprintf(&sb, "LIST -> %v\n", es)
	}
	// the '/'-delimited listing (the file system backends build it from directories)
	dr := s3x.Do(st.Handler, &s3x.Req{Method: "GET", Path: "/bk0", Query: s3x.Q("delimiter", "/")})
	var dd s3x.ListDoc
	if err := dr.XML(&dd); err != nil || dr.Status != 200 {
		fmt.Fprintf(&sb, "LIST / -> %s\n", dr)
	} else {
		ps := dd.Prefixes()
		sort.Strings(ps)
		fmt.Fprintf(&sb, "LIST / -> %d contents, prefixes %v\n", len(dd.Contents), ps)
	}
	if uploadID != "" {
		r := s3x.Do(st.Handler, &s3x.Req{Method: "GET", Path: "/bk0/" + uploadKey, Query: s3x.Q("uploadId", uploadID)})
		var d s3x.ListPartsDoc
		r.XML(&d)
		fmt.Fprintf(&sb, "PARTS -> %d", r.Status)
		for _, p := range d.Parts {
			fmt.Fprintf(&sb, " %d:%d:%s", p.PartNumber, p.Size, p.ETag)
		}
		sb.WriteString("\n")
	}
	return sb.String()
}

const c08MetaLimit = 2000

func c08Check(cs c08Case) (ds []disc) {
	st := backends.Must(cs.Backend, backends.Options{IntegrityOff: cs.IntegrityOff})
	defer st.Close()
	if err := ensureBucket(st, "bk0"); err != nil {
		panic(err)
	}
	fail := func(kind, f string, a ...interface{}) {
		ds = append(ds, disc{Kind: kind, Detail: fmt.Sprintf("backend=%s integrity=%v prior=%s kind=%s fault=%s k=%d len=%d: ", cs.Backend, !cs.IntegrityOff, cs.Prior, cs.Kind, cs.Fault, cs.K, len(cs.Body.bytes())) + fmt.Sprintf(f, a...)})
	}
	// a neighbour that must never change
	if r := put(st, "bk0", "dir/neighbour", []byte("neighbour"), "X-Amz-Meta-N", "n"); r.Status != 200 {
		panic("harness: cannot store neighbour: " + r.String())
	}
	uploadID := ""
	if cs.Prior == "present" || cs.Prior == "upload" {
		if r := put(st, "bk0", c08Key, c08OldBody, "X-Amz-Meta-Keep", "kept", "Content-Type", "text/kept"); r.Status != 200 {
			panic("harness: cannot store prior object: " + r.String())
		}
	}
	if cs.Prior == "upload" || cs.Kind == "part" {
		r := s3x.Do(st.Handler, &s3x.Req{Method: "POST", Path: "/bk0/" + c08Key, Query: s3x.Q("uploads", s3x.Bare), Header: s3x.H("X-Amz-Meta-Up", "u")})
		var d s3x.InitiateDoc
		if r.Status != 200 || r.XML(&d) != nil || d.UploadId == "" {
			panic("harness: cannot initiate upload: " + r.String())
		}
		uploadID = d.UploadId
		for _, n := range []int{1, 2} {
			r := s3x.Do(st.Handler, &s3x.Req{Method: "PUT", Path: "/bk0/" + c08Key, Query: s3x.Q("partNumber", fmt.Sprint(n), "uploadId", uploadID), Body: c08OldPart(n)})
			if r.Status != 200 {
				panic("harness: cannot upload part: " + r.String())
			}
		}
	}
	rq, verdict, wantCode, payload, key := c08Build(cs, uploadID, c08MetaLimit)
	keys := []string{c08Key, "dir/neighbour"}
	if key != c08Key && len(key) <= 1024 {
		keys = append(keys, key)
	}
	before := c08Snapshot(st, keys, uploadID, c08Key)
	resp := s3x.Do(st.Handler, rq)
	after := c08Snapshot(st, keys, uploadID, c08Key)
	if resp.ParseError != "" {
		// net/http itself refused the request: the handler never saw it
		if before != after {
			fail("state-changed", "request refused by the HTTP layer changed state")
		}
		return
	}
	rejected := resp.Panic != "" || resp.Status >= 400
	if resp.Panic != "" {
		fail("panic", "%s at %s", resp.Panic, resp.PanicSite)
	}
	if rejected {
		if before != after {
			fail("rejected-upload-changed-state", "answered %s but the stored state changed:\n--- before\n%s--- after\n%s", resp, before, after)
		}
		if !cs.IntegrityOff {
			// the very next uploads are judged on their own bytes, whatever was received of the rejected one
			next := []byte("the upload that follows a rejected one")
			sum := md5.Sum(next)
			wrong := md5.Sum(append(append([]byte("."), payload...), next...))
			if len(payload) > 0 {
				// (the digest a server would arrive at that went on hashing where the rejected body stopped)
				wrong = md5.Sum(append(append([]byte(nil), payload...), next...))
			}
			n1 := s3x.Do(st.Handler, &s3x.Req{Method: "PUT", Path: "/bk0/dir/after-the-rejected", Body: next, Header: s3x.H("Content-MD5", base64.StdEncoding.EncodeToString(wrong[:]))})
			n2 := s3x.Do(st.Handler, &s3x.Req{Method: "PUT", Path: "/bk0/dir/after-the-rejected", Body: next, Header: s3x.H("Content-MD5", base64.StdEncoding.EncodeToString(sum[:]))})
			if n1.Status != 400 || n1.ErrCode() != "BadDigest" {
				fail("next-upload-misjudged", "after the rejected upload (%s), a PUT whose Content-MD5 is not that of its %d bytes was answered %s", resp, len(next), n1)
			}
			if n2.Status != 200 || n2.Header.Get("ETag") != etagOf(next) {
				fail("next-upload-misjudged", "after the rejected upload (%s), a PUT with the Content-MD5 of its own %d bytes was answered %s (ETag %s, want %s)", resp, len(next), n2, n2.Header.Get("ETag"), etagOf(next))
			}
			del(st, "bk0", "dir/after-the-rejected")
		}
		if uploadID != "" && cs.Kind == "part" {
			// the listing of a pending upload shows numbers, sizes and ETags only; the bytes it
			// holds become visible by completing it
			lp := s3x.Do(st.Handler, &s3x.Req{Method: "GET", Path: "/bk0/" + c08Key, Query: s3x.Q("uploadId", uploadID)})
			var d s3x.ListPartsDoc
			lp.XML(&d)
			var sb strings.Builder
			sb.WriteString("<CompleteMultipartUpload>")
			for _, p := range d.Parts {
				fmt.Fprintf(&sb, "<Part><PartNumber>%d</PartNumber><ETag>%s</ETag></Part>", p.PartNumber, xmlEsc(p.ETag))
			}
			sb.WriteString("</CompleteMultipartUpload>")
			cr := s3x.Do(st.Handler, &s3x.Req{Method: "POST", Path: "/bk0/" + c08Key, Query: s3x.Q("uploadId", uploadID), Body: []byte(sb.String())})
			g := get(st, "bk0", c08Key)
			want := append(append([]byte(nil), c08OldPart(1)...), c08OldPart(2)...)
			if cr.Status != 200 || g.Status != 200 || !bytes.Equal(g.Body, want) {
				fail("rejected-part-changed-pending-upload", "after the rejected part upload (%s) the pending upload was completed with the listed ETags (%d): the object has %d bytes (md5 %s), the accepted parts concatenate to %d bytes (md5 %s)", resp, cr.Status, len(g.Body), md5hex(g.Body), len(want), md5hex(want))
			}
		}
		if verdict == mustAccept && resp.Panic == "" {
			fail("valid-upload-refused", "a valid upload was refused: %s", resp)
		}
		if verdict == mustReject && wantCode != "" && resp.Panic == "" {
			if got := resp.ErrCode(); got != wantCode {
				// for combined faults the statement does not order the checks; only single faults are generated
				fail("wrong-error-code", "want %s got %q (status %d)", wantCode, got, resp.Status)
			}
		}
		return
	}
	// accepted
	if verdict == mustReject {
		fail("corrupt-upload-accepted", "must be rejected (%s) but answered %d", wantCode, resp.Status)
	}
	if resp.Status != 200 {
		fail("odd-success", "answered %d", resp.Status)
	}
	if verdict == mustReject {
		return
	}
	// accepted and allowed: the stored state must be exactly the upload
	switch cs.Kind {
	case "part":
		r := s3x.Do(st.Handler, &s3x.Req{Method: "GET", Path: "/bk0/" + c08Key, Query: s3x.Q("uploadId", uploadID)})
		var d s3x.ListPartsDoc
		r.XML(&d)
		ok := false
		for _, p := range d.Parts {
			if p.PartNumber == 2 && p.Size == int64(len(payload)) && p.ETag == etagOf(payload) {
				ok = true
			}
		}
		if !ok {
			fail("accepted-part-not-stored", "part 2 not listed with the uploaded size/ETag: %+v", d.Parts)
		}
	default:
		r := get(st, "bk0", key)
		if r.Status != 200 || !bytes.Equal(r.Body, payload) || r.Header.Get("ETag") != etagOf(payload) {
			fail("accepted-upload-not-stored", "GET after accepted upload: %d, %d bytes (want %d), ETag %s (want %s)", r.Status, len(r.Body), len(payload), r.Header.Get("ETag"), etagOf(payload))
		}
	}
	return
}

func c08Replay(check string, raw json.RawMessage) ([]disc, error) {
	var cs c08Case
	if err := json.Unmarshal(raw, &cs); err != nil {
		return nil, err
	}
	return c08Check(cs), nil
}

func TestC08(t *testing.T) {
	runProp(t, propDef{
		ID:    "C08",
		Level: "fault_enumeration",
		Rule: "cases = (backend, integrity on/off, prior state in {absent, present with metadata, pending multipart upload}, upload kind in {PUT, aws-chunked PUT, upload-part (plain or aws-chunked), form POST, copy}, fault class, body, parameter k, body fragmentation); " +
			"every fault class of every upload kind is enumerated on every backend and prior state; the body-reader failure point k is enumerated for EVERY k of small bodies; rapid adds random bodies/parameters; " +
			"oracle: accept/reject verdict from the statement + snapshot(before)==snapshot(after) of GET/HEAD (body, ETag, metadata), bucket listing and ListParts for every answer >= 400; " +
			"non-trivial = a rejected upload over an existing object or pending upload; distinct by the full case",
		Replay: c08Replay,
		Run:    c08Run,
	})
}

func c08Run(t *testing.T, c *evid.Collector) {
	kinds := kindsFromEnv(backends.All)
	one := func(cs c08Case, src string) bool {
		if cs.Backend.IsDir() && (cs.Fault == "key-1023" || cs.Fault == "key-1024") && evid.Open("KF-C08-fs-longkey") {
			c.Excluded("KF-C08-fs-longkey") // keys > 222 bytes cannot be stored on a real directory (see KF-C01-fs-longkey)
			return false
		}
		ds := c08Check(cs)
		_, verdict, _, _, _ := c08Build(cs, "1", c08MetaLimit)
		nt := verdict == mustReject && cs.Prior != "absent"
		labels := []string{"backend:" + string(cs.Backend), "kind:" + cs.Kind, "fault:" + cs.Fault, "prior:" + cs.Prior, "src:" + src}
		if cs.Fault == "reader-fails" && cs.K > 0 {
			labels = append(labels, "reader-failed-after-k>0")
		}
		c.Case(evid.FP(mustJSON(cs)), nt, func() interface{} { return cs }, labels...)
		return report(c, "upload", ds, cs)
	}
	// ---- enumeration (ignores the seed): every fault x prior x kind x backend x integrity
	bodies := []bodySpec{{Lit: []byte("0123456789abcdef0123456789ABCDEF-tail")}, {}}
	var all []c08Case
	for _, k := range kinds {
		for _, ioff := range []bool{false, true} {
			for _, prior := range []string{"absent", "present", "upload"} {
				for _, kind := range []string{"put", "chunked", "part", "post", "copy"} {
					for _, f := range c08Faults[kind] {
						for bi, b := range bodies {
							if bi == 1 && (ioff || prior == "upload") {
								continue // the empty body only in the main configuration
							}
							all = append(all, c08Case{Backend: k, IntegrityOff: ioff, Prior: prior, Kind: kind, Fault: f, Body: b, K: 3})
							if (kind == "put" || kind == "part") && (f == "none" || strings.HasPrefix(f, "md5-")) && prior != "upload" {
								all = append(all, c08Case{Backend: k, IntegrityOff: ioff, Prior: prior, Kind: kind, Fault: f, Body: b, K: 3, PayloadHash: true})
							}
							if kind == "part" && (f == "none" || strings.HasPrefix(f, "md5-")) {
								all = append(all, c08Case{Backend: k, IntegrityOff: ioff, Prior: prior, Kind: kind, Fault: f, Body: b, K: 3, Streamed: true})
							}
							if prior == "absent" && kind != "part" && bi == 0 && !ioff {
								all = append(all, c08Case{Backend: k, Prior: prior, Kind: kind, Fault: f, Body: b, K: 3, FreshDir: true})
							}
						}
					}
				}
			}
		}
	}
	// reader failure after EVERY k, short body by every amount, for a small body
	small := bodySpec{Lit: []byte("every-prefix-of-this-body")}
	for _, k := range kinds {
		for _, kind := range []string{"put", "chunked", "part"} {
			n := len(small.Lit)
			if kind == "chunked" {
				n = len(oracle.ChunkedEncode(small.Lit, []int{4, 33000}))
			}
			for i := 0; i < n; i++ {
				all = append(all, c08Case{Backend: k, Prior: "present", Kind: kind, Fault: "reader-fails", Body: small, K: i})
				all = append(all, c08Case{Backend: k, Prior: "present", Kind: kind, Fault: "truncated-body", Body: small, K: i})
				if i < len(small.Lit)+3 {
					all = append(all, c08Case{Backend: k, Prior: "present", Kind: kind, Fault: "short-body", Body: small, K: i})
				}
			}
		}
	}
	// bodies beyond any plausible in-memory buffering threshold (1 MiB, 4 MiB): a rejected large
	// upload must leave the stored object alone just like a small one
	for _, k := range kinds {
		for _, n := range []int{1<<20 + 4097, evid.Scale(0, 4<<20+1)} {
			if n == 0 {
				continue
			}
			for _, kf := range [][2]string{{"put", "md5-wrong"}, {"put", "short-body"}, {"put", "reader-fails"}, {"put", "none"}, {"chunked", "md5-wrong"}, {"chunked", "short-body"}, {"chunked", "truncated-body"},
				{"chunked", "decoded-len-smaller"}, {"chunked", "decoded-len-larger"}, {"part", "md5-wrong"}, {"part", "short-body"}} {
				all = append(all, c08Case{Backend: k, Prior: "present", Kind: kf[0], Fault: kf[1], Body: bodySpec{N: n, Seed: 11}, K: n - 7})
			}
		}
	}
	for _, k := range kinds {
		for _, kind := range []string{"put", "chunked", "post"} {
			for kk := 0; kk < 3; kk++ {
				if kind == "chunked" {
					continue // c08Faults lists it for put and post
				}
				for _, prior := range []string{"absent", "present"} {
					all = append(all, c08Case{Backend: k, Prior: prior, Kind: kind, Fault: "key-long-segment", Body: bodies[0], K: kk})
				}
			}
		}
	}
	// the metadata limit, byte by byte across the band in which the verdict changes
	for _, k := range kinds {
		if k != backends.Mem && k != backends.MultiMem && !evid.Thorough() {
			continue
		}
		for kk := 60; kk <= 140; kk++ {
			all = append(all, c08Case{Backend: k, Prior: "present", Kind: "put", Fault: "meta-around", Body: bodies[0], K: kk})
		}
	}
	for i, cs := range all {
		if i%evid.Shards() != evid.Shard() {
			continue
		}
		one(cs, "enumerated")
	}
	c.Set("enumerated_fault_cases", len(all))
	c.Set("exhaustive_scope", "every fault class x {absent, present, pending upload} x {put, chunked, part, post} x integrity on/off x every backend; reader failure after every k, and truncation by every k, of a 25-byte body (and of its aws-chunked framing)")
	c.Exhaustive(false)

	// ---- random
	rapidRun(t, "random", evid.Scale(1200, 25000), func(rt *rapid.T) {
		k := rapid.SampledFrom(kinds).Draw(rt, "backend")
		kind := rapid.SampledFrom([]string{"put", "put", "chunked", "part", "post", "copy"}).Draw(rt, "kind")
		cs := c08Case{Backend: k, IntegrityOff: rapid.IntRange(0, 3).Draw(rt, "ioff") == 0,
			Prior: rapid.SampledFrom([]string{"absent", "present", "present", "upload"}).Draw(rt, "prior"), Kind: kind,
			Fault: rapid.SampledFrom(c08Faults[kind]).Draw(rt, "fault"), K: rapid.IntRange(0, 100000).Draw(rt, "k")}
		switch rapid.IntRange(0, 5).Draw(rt, "bodyclass") {
		case 0:
			cs.Body = bodySpec{}
		case 1, 2:
			cs.Body = bodySpec{Lit: rapid.SliceOfN(rapid.Byte(), 1, 64).Draw(rt, "lit")}
		case 3:
			cs.Body = bodySpec{N: rapid.SampledFrom([]int{32767, 32768, 32769, 65537}).Draw(rt, "n"), Seed: 3}
		default:
			cs.Body = bodySpec{N: rapid.IntRange(1, evid.Scale(70000, 1<<20)).Draw(rt, "n"), Seed: rapid.Uint64Range(0, 99).Draw(rt, "seed")}
		}
		if cs.Fault != "reader-fails" {
			cs.Frag = genFrag(rt, len(cs.Body.bytes()))
		}
		cs.FreshDir = cs.Prior == "absent" && rapid.Bool().Draw(rt, "freshdir")
		cs.PayloadHash = rapid.IntRange(0, 2).Draw(rt, "payloadhash") == 0
		cs.Streamed = kind == "part" && rapid.IntRange(0, 2).Draw(rt, "streamed") == 0
		if one(cs, "random") {
			rt.Fatalf("C08 violated")
		}
	})
}

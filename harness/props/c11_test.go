//go:build verif

package props

import (
	"bytes"
	"encoding/json"
	"fmt"
	"github.com/johannesboyne/gofakes3"
	"io"
	"net/http"
	"net/http/httptest"
	"strings"
	"testing"
	"time"

	"verif/harness/backends"
	"verif/harness/evid"
	"verif/harness/oracle"
	"verif/harness/s3x"

	"pgregory.net/rapid"
)

// C11 — range reads return exactly the requested bytes or InvalidRange.

type c11Case struct {
	Backend backends.Kind `json:"backend"`
	Size    int           `json:"size"`
	Header  string        `json:"header"`
}

func c11Body(n int) []byte {
	b := make([]byte, n)
	for i := range b {
		b[i] = byte('A' + (i*7+n)%57)
	}
	return b
}

type c11Env struct {
	vids map[int]string // version IDs of the objects named by sizes >= c11Ver
	st   *backends.Stack
	have map[int]bool
	// ifRangeN counts the checks (every fifth one is repeated with If-Range validators)
	ifRangeN int
}

func newC11Env(k backends.Kind) *c11Env {
	st := backends.Must(k, backends.Options{})
	if err := ensureBucket(st, "bk0"); err != nil {
		panic(err)
	}
	return &c11Env{st: st, have: map[int]bool{}}
}

// c11Ver + n as a size names a non-current version of n bytes in a versioned bucket, read with
// ?versionId= (memory backend only).
const c11Ver = 1 << 24

func (e *c11Env) key(size int) string {
	if size >= c11Ver {
		n := size - c11Ver
		k := fmt.Sprintf("ver/obj-%d", n)
		if !e.have[size] {
			if e.vids == nil {
				e.vids = map[int]string{}
				if r := s3x.Do(e.st.Handler, &s3x.Req{Method: "PUT", Path: "/bk0", Query: s3x.Q("versioning", s3x.Bare), Body: []byte(`<VersioningConfiguration><Status>Enabled</Status></VersioningConfiguration>`)}); r.Status != 200 {
					panic("harness: enable versioning: " + r.String())
				}
			}
			r := put(e.st, "bk0", k, c11Body(n))
			if r.Status != 200 || r.Header.Get("x-amz-version-id") == "" {
				panic("harness: versioned put: " + r.String())
			}
			e.vids[size] = r.Header.Get("x-amz-version-id")
			if r := put(e.st, "bk0", k, c11Body(n+2)); r.Status != 200 { // the version read is not the current one
				panic("harness: " + r.String())
			}
			e.have[size] = true
		}
		return k
	}
	if size < 0 {
		// negative sizes name objects that reached the file-system backends' storage behind the
		// server's back (no metadata file; or rewritten with another size): -size-1 bytes
		n := -size - 1
		k := fmt.Sprintf("raw/obj-%d", n)
		if !e.have[size] {
			if n%2 == 1 {
				// stale metadata: stored through the API with another length first
				if r := put(e.st, "bk0", k, c11Body(n+3)); r.Status != 200 {
					panic("harness: " + r.String())
				}
				time.Sleep(5 * time.Millisecond)
			}
			if err := e.st.RawPut("bk0", k, c11Body(n)); err != nil {
				panic(err)
			}
			e.have[size] = true
		}
		return k
	}
	k := fmt.Sprintf("obj-%d", size)
	if !e.have[size] {
		if size%2 == 1 && size < 1<<20 {
			// every other object replaces a longer one of other bytes under its key: the ranges are
			// those of the object as it is now
			long := append(bytes.Repeat([]byte{'#'}, size+11), c11Body(size)...)
			if r := put(e.st, "bk0", k, long); r.Status != 200 {
				panic(fmt.Sprintf("harness: cannot store the %d-byte predecessor on %s: %s", len(long), e.st.Kind, r))
			}
		}
		r := put(e.st, "bk0", k, c11Body(size))
		if r.Status != 200 {
			panic(fmt.Sprintf("harness: cannot store %d-byte object on %s: %s", size, e.st.Kind, r))
		}
		e.have[size] = true
	}
	return k
}

// c11Outcome is the normalised observable result, used for cross-backend comparison.
func c11Check(e *c11Env, size int, header string) (ds []disc, outcome string, class string) {
	key := e.key(size)
	var q [][2]string
	if size >= c11Ver {
		q = s3x.Q("versionId", e.vids[size])
		size -= c11Ver
	}
	if size < 0 {
		size = -size - 1
	}
	body := c11Body(size)
	rq := &s3x.Req{Method: "GET", Path: "/bk0/" + key, Query: q}
	if header != "" {
		rq.Header = s3x.H("Range", header)
	}
	r := s3x.Do(e.st.Handler, rq)
	hv := strings.Trim(header, " \t") // net/http strips optional whitespace around field values
	v := oracle.Range(int64(size), hv)
	if len(hv) >= 6 && hv[:6] != "bytes=" && strings.EqualFold(hv[:6], "bytes=") {
		// unit names are case-insensitive in the HTTP grammar; the statement only says
		// non-'bytes' units are malformed: allow both readings.
		v = oracle.Range(int64(size), "bytes="+hv[6:])
		v.Allow416 = true
		v.Class += "+case"
	}
	class = v.Class
	if r.Panic != "" {
		return []disc{{Kind: "panic", Detail: fmt.Sprintf("size=%d Range=%q: %s at %s", size, header, r.Panic, r.PanicSite)}}, "panic", class
	}
	cl, hasCL := r.ContentLength()
	cr := r.Header.Get("Content-Range")
	outcome = fmt.Sprintf("%d|%s|%v|%s", r.Status, md5hex(r.Body), cl, cr)
	fail := func(kind, f string, a ...interface{}) {
		ds = append(ds, disc{Kind: kind, Detail: fmt.Sprintf("backend=%s size=%d Range=%q: ", e.st.Kind, size, header) + fmt.Sprintf(f, a...)})
	}
	switch {
	case r.Status == 416:
		if !v.Allow416 {
			fail("unexpected-416", "satisfiable range (%s, want bytes %d-%d) answered 416", v.Class, v.First, v.Last)
		} else if code := r.ErrCode(); code != "InvalidRange" {
			fail("bad-error-doc", "416 with error code %q", code)
		}
	case r.Status == 501:
		if !v.Allow501 {
			fail("unexpected-501", "class %s answered 501", v.Class)
		} else if code := r.ErrCode(); code != "NotImplemented" {
			fail("bad-error-doc", "501 with error code %q", code)
		}
	case r.Status == 200 || r.Status == 206:
		if v.AllowWhole {
			if !bytes.Equal(r.Body, body) || !hasCL || cl != int64(size) {
				fail("whole-mismatch", "unranged GET returned %d bytes, Content-Length %v/%v", len(r.Body), cl, hasCL)
			}
			break
		}
		if !v.AllowRange {
			fail("unexpected-success", "class %s must be refused with 416 but got %d with %d bytes (Content-Range %q)", v.Class, r.Status, len(r.Body), cr)
			break
		}
		want := body[v.First : v.Last+1]
		if !bytes.Equal(r.Body, want) {
			fail("wrong-bytes", "want bytes %d-%d (%d bytes) got %d bytes %q", v.First, v.Last, len(want), len(r.Body), trunc(r.Body, 40))
		}
		if !hasCL || cl != int64(len(r.Body)) {
			fail("content-length", "Content-Length %v (present=%v) but %d bytes sent", cl, hasCL, len(r.Body))
		}
		if wantCR := fmt.Sprintf("bytes %d-%d/%d", v.First, v.Last, size); cr != wantCR {
			fail("content-range", "Content-Range %q, want %q", cr, wantCR)
		}
		if et := r.Header.Get("ETag"); et != etagOf(body) {
			fail("etag", "ETag %q of a range response, want the object's %q", et, etagOf(body))
		}
	default:
		fail("other-failure", "status %d body %q", r.Status, trunc(r.Body, 120))
	}
	// The same request with an If-Range validator that matches the object (its ETag, or its
	// Last-Modified date): the condition holds, so the range is in force exactly as without it.
	e.ifRangeN++
	if header != "" && len(ds) == 0 && e.ifRangeN%5 == 0 && (r.Status == 200 || r.Status == 206 || r.Status == 416) {
		h := s3x.Do(e.st.Handler, &s3x.Req{Method: "HEAD", Path: "/bk0/" + key, Query: q})
		// ... and with a condition that every stored object meets (not the ETag of other bytes;
		// changed since a date before every write): it does not stand in the way of the range.
		for _, tw := range [][2]string{{"If-Range", h.Header.Get("ETag")}, {"If-Range", h.Header.Get("Last-Modified")},
			{"If-None-Match", `"00000000000000000000000000000000"`}, {"If-Modified-Since", "Mon, 01 Jan 1990 00:00:00 GMT"}} {
			name, val := tw[0], tw[1]
			if val == "" {
				continue
			}
			r2 := s3x.Do(e.st.Handler, &s3x.Req{Method: "GET", Path: "/bk0/" + key, Query: q, Header: s3x.H("Range", header, name, val)})
			cl2, _ := r2.ContentLength()
			out1, out2 := outcome, fmt.Sprintf("%d|%s|%v|%s", r2.Status, md5hex(r2.Body), cl2, r2.Header.Get("Content-Range"))
			if r.Status >= 400 || r2.Status >= 400 {
				// error documents may carry request IDs: compare status and code
				out1, out2 = fmt.Sprintf("%d %s", r.Status, r.ErrCode()), fmt.Sprintf("%d %s", r2.Status, r2.ErrCode())
			}
			if out2 != out1 {
				fail("if-range", "with %s %q, a condition the object meets, the answer is %s; without it %s (status|md5|length|Content-Range)", name, val, out2, out1)
				break
			}
		}
	}
	return ds, outcome, class
}

func trunc(b []byte, n int) string {
	if len(b) > n {
		return string(b[:n]) + "…"
	}
	return string(b)
}

func c11Headers(n int) []string {
	var hs []string
	for f := -1; f <= n+2; f++ {
		hs = append(hs, fmt.Sprintf("bytes=%d-", f))
		hs = append(hs, fmt.Sprintf("bytes=-%d", f))
		for l := -1; l <= n+2; l++ {
			hs = append(hs, fmt.Sprintf("bytes=%d-%d", f, l))
		}
	}
	return hs
}

var c11Big = []string{"2147483646", "2147483647", "2147483648", "4294967295", "4294967296",
	"9223372036854775806", "9223372036854775807", "9223372036854775808", "18446744073709551615",
	"18446744073709551616", "1000000000000000000000000000000"}

func c11Edge(size int) []string {
	small := []string{"0", "1", "2", fmt.Sprint(size - 1), fmt.Sprint(size), fmt.Sprint(size + 1)}
	var hs []string
	for _, b := range c11Big {
		hs = append(hs, "bytes="+b+"-", "bytes=-"+b, "bytes="+b+"-"+b)
		for _, s := range small {
			hs = append(hs, "bytes="+s+"-"+b, "bytes="+b+"-"+s)
		}
		for _, b2 := range c11Big {
			hs = append(hs, "bytes="+b+"-"+b2)
		}
	}
	hs = append(hs,
		"bytes= 1-2", "bytes=1 -2", "bytes=1- 2", "bytes=1-2 ", " bytes=1-2", "bytes=\t1-2", "bytes=1-2\t",
		"bytes= -2", "bytes=- 2", "bytes=1 - ", "bytes = 1-2", "bytes =1-2",
		"bytes=1 0-20", "bytes=10-2 0", "bytes=1\t0-", "bytes=-1 0", "bytes=0-1 2 3", "bytes=1 0 - 2 0", "by tes=1-2",
		"bytes=0-1,2-3", "bytes=0-0,-1", "bytes=,", "bytes=0-1,", "bytes=,0-1", "bytes=0-1, 2-3",
		"boats=0-0", "Bytes=0-1", "BYTES=1-", "byte=0-1", "bytes0-1", "bytes:0-1", "octets=0-1", "none",
		"bytes=", "bytes=-", "-", "bytes", "=", "0-1", "bytes==0-1", "bytes=--1", "bytes=1--2", "bytes=-1-2",
		"bytes=a-b", "bytes=1-b", "bytes=a-2", "bytes=0x1-0x2", "bytes=1e1-", "bytes=1.0-2", "bytes=+1-+2",
		"bytes=+1-", "bytes=-+1", "bytes=01-02", "bytes=00000000000000000000001-2", "bytes=１-２",
		"bytes=1-2;q=1", "bytes=1-2-3", "bytes=2-1", "bytes=1_0-2_0", "bytes=\"1\"-2", "bytes=∞-",
	)
	return hs
}

func c11Overlap(e *c11Env) (ds []disc) {
	const size = 4000
	a, b := bytes.Repeat([]byte("A"), size), bytes.Repeat([]byte("b"), size)
	for i := range a {
		a[i] = 'A' + byte(i%26)
		b[i] = 'a' + byte(i%26)
	}
	for name, body := range map[string][]byte{"overlap/upper": a, "overlap/lower": b} {
		if r := put(e.st, "bk0", name, body); r.Status != 200 {
			panic("harness: " + r.String())
		}
	}
	be := e.st.Backend
	for round := 0; round < 4; round++ {
		for _, rg := range []gofakes3.ObjectRangeRequest{{Start: 0, End: 0}, {Start: 2, End: 5}, {Start: 100, End: gofakes3.RangeNoEnd}, {Start: 3900, End: 99999}, {Start: 0, End: 7, FromEnd: true}} {
			rg1, rg2 := rg, rg
			oa, err := be.GetObject("bk0", "overlap/upper", &rg1)
			if err != nil {
				return dsc("api-range-failed", "backend=%s GetObject(upper, %+v): %v", e.st.Kind, rg, err)
			}
			ob, err := be.GetObject("bk0", "overlap/lower", &rg2)
			if err != nil {
				oa.Contents.Close()
				return dsc("api-range-failed", "backend=%s GetObject(lower, %+v): %v", e.st.Kind, rg, err)
			}
			if h, err := be.HeadObject("bk0", "overlap/lower"); err == nil && h.Contents != nil {
				h.Contents.Close()
			}
			ga, _ := io.ReadAll(oa.Contents)
			gb, _ := io.ReadAll(ob.Contents)
			oa.Contents.Close()
			ob.Contents.Close()
			want := func(body []byte) []byte {
				r, err := rg.Range(int64(len(body)))
				if err != nil || r == nil {
					return nil
				}
				return body[r.Start : r.Start+r.Length]
			}
			if !bytes.Equal(ga, want(a)) || !bytes.Equal(gb, want(b)) {
				ds = append(ds, dsc("overlapping-reads-mixed", "backend=%s round %d range %+v: two objects fetched one after the other and read afterwards deliver %q… and %q…, want %q… and %q…", e.st.Kind, round, rg, trunc(ga, 12), trunc(gb, 12), trunc(want(a), 12), trunc(want(b), 12))...)
				return ds
			}
		}
	}
	return ds
}

// c11RealServer: ranged reads over a real connection (net/http's own response writer decides the
// framing there: a handler that leaves Content-Length out gets a chunked response once the body
// outgrows the sniffing buffer). The Content-Length header must be there and equal the bytes sent.
func c11RealServer(k backends.Kind) (ds []disc, n int) {
	st := backends.Must(k, backends.Options{})
	defer st.Close()
	if err := ensureBucket(st, "bk0"); err != nil {
		panic(err)
	}
	srv := httptest.NewServer(st.Handler)
	defer srv.Close()
	for _, size := range []int{100, 511, 512, 513, 8192, 70000} {
		body := c11Body(size)
		key := fmt.Sprintf("real-%d", size)
		if r := put(st, "bk0", key, body); r.Status != 200 {
			panic("harness: " + r.String())
		}
		for _, h := range []string{"", "bytes=0-0", "bytes=0-", "bytes=1-", "bytes=10-521", "bytes=10-520", fmt.Sprintf("bytes=-%d", size-1), fmt.Sprintf("bytes=-%d", size/2), "bytes=0-99999999", fmt.Sprintf("bytes=%d-", size/2), fmt.Sprintf("bytes=%d-%d", size-1, size+5)} {
			v := oracle.Range(int64(size), h)
			if h != "" && !v.AllowRange {
				continue
			}
			n++
			rq, _ := http.NewRequest("GET", srv.URL+"/bk0/"+key, nil)
			if h != "" {
				rq.Header.Set("Range", h)
			}
			resp, err := http.DefaultClient.Do(rq)
			if err != nil {
				ds = append(ds, dsc("real-server-read", "backend=%s size=%d Range=%q over a real connection: %v", k, size, h, err)...)
				continue
			}
			got, err := io.ReadAll(resp.Body)
			resp.Body.Close()
			want := body
			if h != "" {
				want = body[v.First : v.Last+1]
			}
			cl := resp.Header.Get("Content-Length")
			switch {
			case err != nil || !bytes.Equal(got, want):
				ds = append(ds, dsc("real-server-bytes", "backend=%s size=%d Range=%q over a real connection: %d bytes (err %v), want %d", k, size, h, len(got), err, len(want))...)
			case cl != fmt.Sprint(len(want)) || len(resp.TransferEncoding) > 0:
				ds = append(ds, dsc("real-server-content-length", "backend=%s size=%d Range=%q over a real connection: Content-Length %q, Transfer-Encoding %v; %d bytes were sent", k, size, h, cl, resp.TransferEncoding, len(got))...)
			}
		}
	}
	return ds, n
}

func c11Replay(check string, raw json.RawMessage) ([]disc, error) {
	if check == "real-server" {
		var cs c11Case
		if err := json.Unmarshal(raw, &cs); err != nil {
			return nil, err
		}
		ds, _ := c11RealServer(cs.Backend)
		return ds, nil
	}
	if check == "range-overlap" {
		var cs c11Case
		if err := json.Unmarshal(raw, &cs); err != nil {
			return nil, err
		}
		e := newC11Env(cs.Backend)
		defer e.st.Close()
		return c11Overlap(e), nil
	}
	var cs c11Case
	if err := json.Unmarshal(raw, &cs); err != nil {
		return nil, err
	}
	e := newC11Env(cs.Backend)
	defer e.st.Close()
	ds, _, _ := c11Check(e, cs.Size, cs.Header)
	return ds, nil
}

func TestC11(t *testing.T) {
	runProp(t, propDef{
		ID:    "C11",
		Level: "exploration",
		Rule: "cases = (backend, object size, Range header); exhaustive over sizes 0..N x bytes=F-L / F- / -S with F,L,S in -1..N+2 " +
			"(N=8 quick, 24 thorough) plus int32/int64/overflow boundary values, whitespace, multi-range and unit variants, plus rapid-generated headers; every fifth request is repeated with If-Range validators of the object itself and with If-None-Match / If-Modified-Since conditions that every object meets, and must be answered alike; " +
			"non-trivial = the oracle classifies the header as a satisfiable range shorter than the object, a clipped range, or a 416; distinct by (backend,size,header)",
		Replay: c11Replay,
		Run:    c11Run,
	})
}

func c11Run(t *testing.T, c *evid.Collector) {
	n := evid.Scale(8, 24)
	kinds := kindsFromEnv(backends.All)
	envs := map[backends.Kind]*c11Env{}
	for _, k := range kinds {
		envs[k] = newC11Env(k)
		defer envs[k].st.Close()
	}
	first := map[string]string{} // (size,header) -> outcome on the first backend
	one := func(k backends.Kind, size int, h string, src string) bool {
		e := envs[k]
		ds, out, class := c11Check(e, size, h)
		cs := c11Case{k, size, h}
		nontriv := class != "none" && !(strings.HasPrefix(class, "open") && h == "bytes=0-") &&
			!(strings.HasPrefix(class, "closed") && false)
		c.Case(evid.FP(string(k), fmt.Sprint(size), h), nontriv, func() interface{} { return cs }, "class:"+class, "backend:"+string(k), "src:"+src)
		ck := fmt.Sprintf("%d\x00%s", size, h)
		if prev, ok := first[ck]; !ok {
			first[ck] = out
		} else if prev != out {
			ds = append(ds, disc{Kind: "backends-differ", Detail: fmt.Sprintf("size=%d Range=%q: %s answers %s, %s answered %s", size, h, k, out, kinds[0], prev)})
		}
		return report(c, "range", ds, cs)
	}
	// exhaustive small scope (ignores the seed)
	hs := c11Headers(n)
	if evid.Shard() == 0 {
		for size := 0; size <= n; size++ {
			for _, h := range hs {
				for _, k := range kinds {
					one(k, size, h, "exhaustive")
				}
			}
		}
		for _, size := range []int{0, 1, 2, 5, 100, 4096, 70000} {
			for _, h := range c11Edge(size) {
				for _, k := range kinds {
					one(k, size, h, "edge")
				}
			}
			for _, k := range kinds {
				one(k, size, "", "edge")
			}
		}
		// objects that appeared in the fs backends' storage out of band: every range request is the
		// FIRST read of a fresh object (the read that has to compute the missing metadata)
		for _, k := range kinds {
			if !k.IsFs() {
				continue
			}
			raw := newC11Env(k)
			n := 0
			for size := 1; size <= 6; size++ {
				for _, h := range c11Headers(size) {
					n++
					// a fresh object for every request: sizes are encoded as -(len+1) with a running offset
					rawSize := -(size + 1)
					delete(raw.have, rawSize)
					del(raw.st, "bk0", fmt.Sprintf("raw/obj-%d", size))
					ds, _, class := c11Check(raw, rawSize, h)
					cs := c11Case{k, rawSize, h}
					c.Case(evid.FP(string(k), "raw", fmt.Sprint(size), h), class != "none", func() interface{} { return cs }, "class:"+class, "backend:"+string(k), "src:out-of-band-object")
					report(c, "range", ds, cs)
				}
			}
			raw.st.Close()
		}
		// a specific (non-current) version read with ?versionId= obeys the same rules
		for _, k := range kinds {
			if k != backends.Mem {
				continue
			}
			ver := newC11Env(k)
			for size := 0; size <= 5; size++ {
				for _, h := range append(c11Headers(size), c11Edge(size)...) {
					ds, _, class := c11Check(ver, c11Ver+size, h)
					cs := c11Case{k, c11Ver + size, h}
					c.Case(evid.FP(string(k), "version", fmt.Sprint(size), h), class != "none", func() interface{} { return cs }, "class:"+class, "backend:"+string(k), "src:by-version-id")
					report(c, "range", ds, cs)
				}
			}
			ver.st.Close()
		}
		// two ranged reads through the Go API whose lifetimes overlap (the second object is fetched, and a
		// HeadObject made, before the first one's contents are consumed): each still delivers its own range
		for _, k := range kinds {
			e := envs[k]
			ds := c11Overlap(e)
			cs := c11Case{k, -1000, "overlapping Backend.GetObject calls"}
			c.Case(evid.FP(string(k), "overlap"), true, func() interface{} { return cs }, "backend:"+string(k), "src:overlapping-api-reads")
			report(c, "range-overlap", ds, cs)
		}
		for _, k := range kinds {
			ds, nreq := c11RealServer(k)
			cs := c11Case{k, -1002, "ranged reads over a real connection"}
			c.Case(evid.FP(string(k), "real-server"), nreq > 0, func() interface{} { return cs }, "backend:"+string(k), "src:real-server")
			report(c, "real-server", ds, cs)
		}
		c.Exhaustive(false) // the small scope is complete, the property's domain is not
		c.Set("exhaustive_scope", fmt.Sprintf("sizes 0..%d x {bytes=F-L, bytes=F-, bytes=-S : F,L,S in -1..%d} on %d configurations: complete", n, n+2, len(kinds)))
	}
	// random headers
	numGen := rapid.OneOf(
		rapid.IntRange(-2, 40).AsAny(),
		rapid.SampledFrom(c11Big).AsAny(),
		rapid.Int64().AsAny(),
		rapid.Uint64().AsAny(),
		rapid.SampledFrom([]string{"", " ", "+1", "-0", "00", "a", "1 "}).AsAny(),
	)
	rapidRun(t, "random", evid.Scale(1500, 60000), func(rt *rapid.T) {
		size := rapid.SampledFrom([]int{0, 1, 2, 3, 7, 33, 1000, 32768, 32769}).Draw(rt, "size")
		var h string
		switch rapid.IntRange(0, 5).Draw(rt, "form") {
		case 0:
			h = fmt.Sprintf("bytes=%v-%v", numGen.Draw(rt, "a"), numGen.Draw(rt, "b"))
		case 1:
			h = fmt.Sprintf("bytes=%v-", numGen.Draw(rt, "a"))
		case 2:
			h = fmt.Sprintf("bytes=-%v", numGen.Draw(rt, "b"))
		case 3:
			h = fmt.Sprintf("bytes=%v-%v,%v-%v", numGen.Draw(rt, "a"), numGen.Draw(rt, "b"), numGen.Draw(rt, "c"), numGen.Draw(rt, "d"))
		case 4:
			h = rapid.StringMatching(`(bytes|Bytes|bits|)[= ]?[0-9\- ,+]{0,12}`).Draw(rt, "h")
		default:
			h = rapid.StringOfN(rapid.RuneFrom([]rune("bytes=-0123456789 ,+x")), 0, 24, -1).Draw(rt, "h")
		}
		if strings.ContainsAny(h, "\r\n\x00") {
			rt.Skip()
		}
		bad := false
		for _, k := range kinds {
			if one(k, size, h, "random") {
				bad = true
			}
		}
		if bad {
			rt.Fatalf("C11 violated for size=%d Range=%q", size, h)
		}
	})
}

// FuzzC11 is the coverage-guided target of the thorough tier.
func FuzzC11(f *testing.F) {
	for _, h := range c11Edge(5) {
		f.Add(h, 5)
	}
	f.Add("bytes=0-9223372036854775807", 10)
	envs := map[backends.Kind]*c11Env{}
	for _, k := range []backends.Kind{backends.Mem, backends.MultiMem} {
		envs[k] = newC11Env(k)
	}
	f.Fuzz(func(t *testing.T, h string, size int) {
		if size < 0 || size > 64 || strings.ContainsAny(h, "\r\n\x00") || len(h) > 200 {
			return
		}
		for i := 0; i < len(h); i++ {
			if h[i] < 0x20 && h[i] != '\t' || h[i] == 0x7f {
				return
			}
		}
		for _, e := range envs {
			ds, _, _ := c11Check(e, size, h)
			for _, d := range ds {
				if d.KF != "" && evid.Open(d.KF) {
					continue
				}
				t.Fatalf("C11: %s", d)
			}
		}
	})
}

//go:build verif

package props

import (
	"encoding/json"
	"fmt"
	"strings"
	"testing"

	"verif/harness/backends"
	"verif/harness/evid"
	"verif/harness/prog"

	"pgregory.net/rapid"
)

// C02 — every operation sequence follows S3 bucket/object semantics on every backend.

type progCase struct {
	Backend backends.Kind    `json:"backend"`
	Opts    backends.Options `json:"opts"`
	Driver  string           `json:"driver,omitempty"` // "" = http, "mixed" = some ops through the Backend API
	Ops     []prog.Op        `json:"ops"`
	NoTick  bool             `json:"noTick,omitempty"` // the server's (fixed) clock stands still for the whole program
}

var c02Buckets = []string{"bk0", "bk1", "bk2"}
var c02Keys = []string{"a", "b", "d/x", "d/y", "d/e/z", "f.txt"}

// keys that lie below another key of the universe ("a/q" below "a") or where the directory
// of others is ("d"): storable next to them on the key-value backends, outside the key domain
// of the file system backends while the other key is live (refused there, and reading or
// deleting them is still NoSuchKey / a no-op). Drawn less often; always read by the invariant.
var c02NestedKeys = []string{"a/q", "d", "d_x", "a/q/r/s", "d/x/deep/er"} // "d_x": what "d/x" looks like with its separator flattened (metadata file names of the fs backends)
var c02Universe = append(append([]string{}, c02Keys...), c02NestedKeys...)

func c02GenKey(rt *rapid.T, label string) string {
	if rapid.IntRange(0, 6).Draw(rt, label+"-nested") == 0 {
		return rapid.SampledFrom(c02NestedKeys).Draw(rt, label)
	}
	return rapid.SampledFrom(c02Keys).Draw(rt, label)
}

// c02Exec runs a program; after every op the invariant (GET of every universe
// key in every model bucket) is checked, at the end every bucket is listed.
// It stops at the first step that shows a discrepancy.
func c02Exec(cs progCase, keys []string, classify func(r *prog.Runner) func(op prog.Op, d *disc)) (ds []disc, labels map[string]bool) {
	st := backends.Must(cs.Backend, cs.Opts)
	defer st.Close()
	r := prog.NewRunner(st)
	if classify != nil {
		r.Classify = classify(r)
	}
	labels = map[string]bool{}
	deleted := map[string]bool{}
	for i, op := range cs.Ops {
		// classification labels (from the model state before the op)
		if mb := r.M.Buckets[op.B]; mb != nil {
			switch op.K {
			case "put":
				if mb.Live(op.Key) != nil {
					labels["overwrite"] = true
				} else if deleted[op.B+"/"+op.Key] {
					labels["recreate-after-delete"] = true
				}
			case "del":
				if mb.Live(op.Key) == nil {
					labels["delete-of-missing"] = true
				} else {
					deleted[op.B+"/"+op.Key] = true
				}
			case "copy":
				if op.SB == op.B && op.SKey == op.Key && mb.Live(op.Key) != nil {
					labels["self-copy"] = true
				}
			case "rmbucket":
				if len(mb.LiveKeys()) == 0 && len(deleted) > 0 {
					labels["bucket-delete-after-emptying"] = true
				}
				if len(mb.LiveKeys()) > 0 {
					labels["bucket-delete-nonempty"] = true
				}
			case "mdel":
				live, missing := 0, 0
				for _, k := range op.Keys {
					if mb.Live(k) != nil {
						live++
						deleted[op.B+"/"+k] = true
					} else {
						missing++
					}
				}
				if live > 0 && missing > 0 {
					labels["mixed-multi-delete"] = true
				}
			case "mkbucket":
				labels["bucket-recreate"] = true
			}
		} else if op.K != "mkbucket" && op.K != "lsbuckets" {
			labels["op-on-absent-bucket"] = true
		}
		var sd []disc
		done := false
		if op.Via == "api" {
			sd, done = r.APIStep(op)
			if done {
				for j := range sd {
					if r.Classify != nil {
						r.Classify(op, &sd[j])
					}
					sd[j].Detail = "[api " + op.String() + "] " + sd[j].Detail
				}
			}
		}
		if !done {
			o := op
			if o.Via == "api" {
				o.Via = ""
			}
			sd = r.Step(o)
		}
		if len(sd) == 0 {
			sd = r.Invariant(keys)
		}
		if len(sd) > 0 {
			for j := range sd {
				sd[j].Detail = fmt.Sprintf("step %d: %s", i, sd[j].Detail)
			}
			return sd, labels
		}
	}
	for b := range r.M.Buckets {
		if sd := r.Step(prog.Op{K: "list", B: b}); len(sd) > 0 {
			return sd, labels
		}
	}
	return nil, labels
}

func c02Nontrivial(labels map[string]bool) bool {
	for _, l := range []string{"overwrite", "recreate-after-delete", "self-copy", "delete-of-missing", "bucket-delete-after-emptying", "mixed-multi-delete"} {
		if labels[l] {
			return true
		}
	}
	return false
}

// known-finding classification for C02 (fs backends)
func c02Classify(k backends.Kind) func(r *prog.Runner) func(op prog.Op, d *disc) {
	return func(r *prog.Runner) func(op prog.Op, d *disc) {
		return func(op prog.Op, d *disc) {}
	}
}

func genBody(rt *rapid.T, label string) []byte {
	// small, distinct, self-describing bodies
	n := rapid.IntRange(0, 12).Draw(rt, label+"len")
	tag := rapid.IntRange(0, 999).Draw(rt, label+"tag")
	s := fmt.Sprintf("<%d>", tag)
	for len(s) < n {
		s += "."
	}
	if n == 0 {
		return []byte{}
	}
	return []byte(s)
}

func c02GenOp(rt *rapid.T, single bool, mixed bool) prog.Op {
	buckets := c02Buckets
	b := rapid.SampledFrom(buckets).Draw(rt, "b")
	k := c02GenKey(rt, "k")
	kind := rapid.SampledFrom([]string{"put", "put", "put", "get", "get", "head", "del", "del", "mdel", "copy", "copy",
		"mkbucket", "mkbucket", "rmbucket", "headbucket", "lsbuckets", "list"}).Draw(rt, "kind")
	op := prog.Op{K: kind, B: b}
	switch kind {
	case "put":
		op.Key, op.Body = k, genBody(rt, "body")
		if rapid.IntRange(0, 3).Draw(rt, "meta") == 0 {
			op.Meta = [][2]string{{"X-Amz-Meta-Tag", fmt.Sprintf("v%d", rapid.IntRange(0, 9).Draw(rt, "mv"))}}
		}
	case "get", "head", "del":
		op.Key = k
	case "mdel":
		n := rapid.IntRange(1, 4).Draw(rt, "n")
		for i := 0; i < n; i++ {
			op.Keys = append(op.Keys, c02GenKey(rt, "mk"))
		}
		op.Keys = dedup(op.Keys)
		if rapid.IntRange(0, 3).Draw(rt, "nullver") == 0 {
			// the entries carry the version ID a listing of these (never versioned) buckets shows
			for range op.Keys {
				op.VRefs = append(op.VRefs, prog.NullRef)
			}
		}
		op.Quiet = rapid.Bool().Draw(rt, "quiet")
	case "copy":
		op.Key = k
		op.SB = rapid.SampledFrom(buckets).Draw(rt, "sb")
		op.SKey = c02GenKey(rt, "sk")
		switch rapid.IntRange(0, 4).Draw(rt, "self") {
		case 0:
			op.SB, op.SKey = op.B, op.Key
		case 1:
			op.SB = op.B
		}
		if rapid.IntRange(0, 4).Draw(rt, "directive") == 0 {
			op.Via = "directive-copy"
		}
		if op.Via != "directive-copy" && rapid.IntRange(0, 2).Draw(rt, "copymeta") == 0 {
			// the copy request overrides metadata: the destination gets it, the source must not
			// (never together with the COPY directive, under which S3 ignores the request's metadata)
			op.Meta = [][2]string{{"X-Amz-Meta-Tag", fmt.Sprintf("copy%d", rapid.IntRange(0, 9).Draw(rt, "cmv"))}, {"X-Amz-Meta-Only-On-Copy", "c"}}
		}
	}
	if mixed && rapid.IntRange(0, 3).Draw(rt, "via") == 0 {
		op.Via = "api"
	}
	return op
}

func dedup(s []string) []string {
	seen := map[string]bool{}
	var o []string
	for _, x := range s {
		if !seen[x] {
			seen[x] = true
			o = append(o, x)
		}
	}
	return o
}

func c02Replay(check string, raw json.RawMessage) ([]disc, error) {
	var cs progCase
	if err := json.Unmarshal(raw, &cs); err != nil {
		return nil, err
	}
	ds, _ := c02Exec(cs, c02Universe, nil)
	return ds, nil
}

func TestC02(t *testing.T) {
	runProp(t, propDef{
		ID:    "C02",
		Level: "exploration",
		Rule: "cases = (backend configuration, auto-bucket on/off, operation program); bounded-exhaustive: every program of length <= L over a 23-op alphabet on 2 buckets x 2 keys (L=3 quick, 4 thorough); " +
			"random: rapid programs of 5-40 ops over 3 buckets x 6 keys (nested keys sharing directory prefixes), a quarter of the ops through the Go Backend API; " +
			"non-trivial = the program contains an overwrite, a re-creation after delete, a self-copy, a delete of a missing key, a bucket delete after emptying or a mixed multi-delete; distinct by (configuration, program)",
		Replay: c02Replay,
		Run:    c02Run,
	})
}

func c02Alphabet() []prog.Op {
	bs := []string{"bk0", "bk1"}
	ks := []string{"a", "d/x"}
	var al []prog.Op
	for _, b := range bs {
		al = append(al, prog.Op{K: "mkbucket", B: b}, prog.Op{K: "rmbucket", B: b})
		for _, k := range ks {
			al = append(al, prog.Op{K: "put", B: b, Key: k}, prog.Op{K: "del", B: b, Key: k})
		}
		al = append(al, prog.Op{K: "mdel", B: b, Keys: ks})
	}
	al = append(al,
		prog.Op{K: "copy", B: "bk0", Key: "d/x", SB: "bk0", SKey: "a"},
		prog.Op{K: "copy", B: "bk0", Key: "a", SB: "bk0", SKey: "a"},
		prog.Op{K: "copy", B: "bk1", Key: "a", SB: "bk0", SKey: "a"},
		prog.Op{K: "copy", B: "bk0", Key: "a", SB: "bk1", SKey: "d/x"},
		prog.Op{K: "lsbuckets"},
		prog.Op{K: "headbucket", B: "bk1"},
		prog.Op{K: "get", B: "bk1", Key: "zz"},
	)
	return al
}

func c02Run(t *testing.T, c *evid.Collector) {
	// ---- bounded-exhaustive pass
	al := c02Alphabet()
	L := evid.Scale(3, 4)
	exKinds := []backends.Kind{backends.Mem}
	if evid.Thorough() {
		exKinds = []backends.Kind{backends.Mem, backends.Bolt, backends.MultiMem}
	}
	exKinds = kindsFromEnv(exKinds)
	idx := make([]int, L)
	var count int64
	var enum func(depth, length int, k backends.Kind)
	shard, shards := evid.Shard(), evid.Shards()
	enum = func(depth, length int, k backends.Kind) {
		if depth == length {
			count++
			if int(count)%shards != shard {
				return
			}
			ops := []prog.Op{{K: "mkbucket", B: "bk0"}, {K: "put", B: "bk0", Key: "a", Body: []byte("seed")}}
			for i := 0; i < length; i++ {
				o := al[idx[i]]
				if o.K == "put" {
					o.Body = []byte(fmt.Sprintf("body-%d", i))
				}
				ops = append(ops, o)
			}
			cs := progCase{Backend: k, Ops: ops}
			ds, labels := c02Exec(cs, []string{"a", "d/x"}, c02Classify(k))
			var ls []string
			for l := range labels {
				ls = append(ls, "ex:"+l)
			}
			c.Case(evid.FP(mustJSON(cs)), c02Nontrivial(labels), func() interface{} { return cs }, append(ls, "src:exhaustive", "backend:"+string(k))...)
			report(c, "program", ds, cs)
			return
		}
		for i := range al {
			idx[depth] = i
			enum(depth+1, length, k)
		}
	}
	for _, k := range exKinds {
		for length := 1; length <= L; length++ {
			enum(0, length, k)
		}
	}
	c.Set("exhaustive_scope", fmt.Sprintf("all programs of length 1..%d over a %d-op alphabet (2 buckets x 2 keys), each started from the state {bk0: a}, on %v: complete (split over shards)", L, len(al), exKinds))
	c.Exhaustive(false)

	// ---- fixed histories that mix the two drivers (ignore the seed): copies made through the Go
	// API, onto destinations that already hold metadata, leave their sources as they were
	kinds := kindsFromEnv(backends.All)
	if shard == 0 {
		sent := [][2]string{{"X-Amz-Meta-Tag", "copy1"}, {"X-Amz-Meta-Only-On-Copy", "c"}}
		hs := [][]prog.Op{
			{{K: "put", B: "bk0", Key: "a", Body: []byte("source"), Meta: [][2]string{{"X-Amz-Meta-Tag", "v1"}}}, {K: "put", B: "bk0", Key: "b", Body: []byte("destination")},
				{K: "copy", B: "bk0", Key: "b", SB: "bk0", SKey: "a", Meta: sent}, {K: "copy", B: "bk0", Key: "b", SB: "bk0", SKey: "a", Via: "directive-copy"}, {K: "get", B: "bk0", Key: "a"}, {K: "copy", B: "bk0", Key: "b", SB: "bk0", SKey: "a", Via: "api"}, {K: "get", B: "bk0", Key: "a"},
				{K: "copy", B: "bk0", Key: "f.txt", SB: "bk0", SKey: "a", Via: "api"}, {K: "copy", B: "bk0", Key: "a", SB: "bk0", SKey: "a", Via: "api"}, {K: "put", B: "bk0", Key: "a", Body: []byte("again")}},
			{{K: "put", B: "bk0", Key: "d/x", Body: []byte("dx")}, {K: "put", B: "bk0", Key: "d/y", Body: []byte("dy"), Meta: [][2]string{{"X-Amz-Meta-Tag", "y"}}},
				{K: "copy", B: "bk0", Key: "d/y", SB: "bk0", SKey: "d/y", Meta: sent}, {K: "copy", B: "bk0", Key: "d/y", SB: "bk0", SKey: "d/x", Via: "api"}, {K: "copy", B: "bk0", Key: "b", SB: "bk0", SKey: "d/x", Via: "api"},
				{K: "del", B: "bk0", Key: "d/x"}, {K: "copy", B: "bk0", Key: "d/x", SB: "bk0", SKey: "b", Via: "api"}},
		}
		for _, k := range kinds {
			for _, h := range hs {
				cs := progCase{Backend: k, Driver: "mixed", Ops: h}
				if !k.IsSingle() {
					cs.Ops = append([]prog.Op{{K: "mkbucket", B: "bk0"}}, h...)
				}
				ds, labels := c02Exec(cs, c02Universe, c02Classify(k))
				c.Case(evid.FP(mustJSON(cs)), true, func() interface{} { return cs }, "src:fixed-mixed-driver", "backend:"+string(k))
				_ = labels
				report(c, "program", ds, cs)
			}
		}
	}

	// ---- random programs
	rapidRun(t, "random", evid.Scale(1800, 30000), func(rt *rapid.T) {
		k := rapid.SampledFrom(kinds).Draw(rt, "backend")
		auto := rapid.IntRange(0, 3).Draw(rt, "auto") == 0 // also on the single-bucket backends (their bucket exists; no other can be created)
		mixed := rapid.Bool().Draw(rt, "mixed")
		n := rapid.IntRange(5, 40).Draw(rt, "n")
		cs := progCase{Backend: k, Opts: backends.Options{AutoBucket: auto}}
		if mixed {
			cs.Driver = "mixed"
		}
		// most programs start by creating a bucket or two so that object ops land
		if !k.IsSingle() && !auto && rapid.IntRange(0, 9).Draw(rt, "pre") > 0 {
			cs.Ops = append(cs.Ops, prog.Op{K: "mkbucket", B: "bk0"})
			if rapid.Bool().Draw(rt, "pre2") {
				cs.Ops = append(cs.Ops, prog.Op{K: "mkbucket", B: "bk1"})
			}
		}
		for i := 0; i < n; i++ {
			if rapid.IntRange(0, 11).Draw(rt, "drain") == 0 {
				// macro: empty a bucket completely, then delete it (and maybe re-create it)
				b := rapid.SampledFrom(c02Buckets).Draw(rt, "db")
				if rapid.Bool().Draw(rt, "dm") {
					cs.Ops = append(cs.Ops, prog.Op{K: "mdel", B: b, Keys: c02Universe, Quiet: rapid.Bool().Draw(rt, "dq")})
				} else {
					for _, dk := range c02Universe {
						cs.Ops = append(cs.Ops, prog.Op{K: "del", B: b, Key: dk})
					}
				}
				cs.Ops = append(cs.Ops, prog.Op{K: "rmbucket", B: b})
				if rapid.Bool().Draw(rt, "dr") {
					cs.Ops = append(cs.Ops, prog.Op{K: "mkbucket", B: b}, prog.Op{K: "put", B: b, Key: rapid.SampledFrom(c02Keys).Draw(rt, "drk"), Body: genBody(rt, "drb")})
				}
				continue
			}
			cs.Ops = append(cs.Ops, c02GenOp(rt, k.IsSingle(), mixed))
		}
		ds, labels := c02Exec(cs, c02Universe, c02Classify(k))
		var ls []string
		for l := range labels {
			ls = append(ls, l)
		}
		ls = append(ls, "src:random", "backend:"+string(k))
		if auto {
			ls = append(ls, "auto-bucket")
		}
		c.Case(evid.FP(mustJSON(cs)), c02Nontrivial(labels), func() interface{} { return cs }, ls...)
		if report(c, "program", ds, cs) {
			rt.Fatalf("C02 violated: %v", ds)
		}
	})
}

var _ = strings.Join

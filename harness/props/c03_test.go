//go:build verif

package props

import (
	"encoding/json"
	"fmt"
	"sort"
	"strings"
	"testing"

	"verif/harness/backends"
	"verif/harness/evid"
	"verif/harness/oracle"
	"verif/harness/prog"
	"verif/harness/s3x"

	"github.com/johannesboyne/gofakes3"
	"pgregory.net/rapid"
)

// C03 — listings are the exact, sorted, correctly grouped view of the live keys.

type c03Case struct {
	Backend backends.Kind `json:"backend"`
	Keys    []string      `json:"keys"`             // live keys
	Gone    []string      `json:"gone,omitempty"`   // keys that were stored and deleted again before listing
	Marked  []string      `json:"marked,omitempty"` // mem only: keys deleted while versioning is enabled (delete markers)
	Absent  []string      `json:"absent,omitempty"` // keys deleted while they held nothing (directory parts of live keys, for example)
	Prefix  string        `json:"prefix"`
	Delim   string        `json:"delim"`
	V2      bool          `json:"v2,omitempty"`
}

func c03Body(k string) []byte { return []byte("body of " + k + strings.Repeat("+", len(k)%5)) }

// c03Small enumerates the strings over {a,b,/} up to length n.
func c03Strings(n int) []string {
	out := []string{""}
	prev := []string{""}
	for l := 1; l <= n; l++ {
		var cur []string
		for _, p := range prev {
			for _, ch := range []string{"/", "a", "b"} {
				cur = append(cur, p+ch)
			}
		}
		out = append(out, cur...)
		prev = cur
	}
	sort.Strings(out)
	return out
}

func c03Keys() []string {
	var ks []string
	for _, s := range c03Strings(3) {
		if s == "" || strings.HasPrefix(s, "/") || strings.HasSuffix(s, "/") {
			continue
		}
		ks = append(ks, s)
	}
	return ks
}

func c03Prefixes() []string {
	var ps []string
	for _, s := range c03Strings(3) {
		if strings.HasPrefix(s, "/") {
			continue
		}
		ps = append(ps, s)
	}
	return ps
}

// inDomain applies the quantifier of C03: keys neither start nor end with the
// delimiter, prefixes do not start with it.
func c03InDomain(keys []string, prefix, delim string) bool {
	if delim == "" {
		return true
	}
	if strings.HasPrefix(prefix, delim) {
		return false
	}
	for _, k := range keys {
		if strings.HasPrefix(k, delim) || strings.HasSuffix(k, delim) {
			return false
		}
	}
	return true
}

// fsConflict: a key that is a path prefix of another cannot coexist on a file system.
func fsConflict(keys []string) bool {
	for _, a := range keys {
		for _, b := range keys {
			if a != b && strings.HasPrefix(b, a+"/") {
				return true
			}
		}
	}
	return false
}

func fsKeyOK(k string) bool {
	if k == "" || len(k) > 1024 {
		return false
	}
	for _, seg := range strings.Split(k, "/") {
		if seg == "" || seg == "." || seg == ".." || len(seg) > 255 || strings.ContainsRune(seg, 0) {
			return false
		}
	}
	return true
}

// c03Check lists bucket through HTTP (V1 or V2) and through Backend.ListBucket and
// compares with the oracle computed from live.
func c03Check(st *backends.Stack, bucket string, live map[string][]byte, prefix, delim string, v2 bool) (ds []disc, want oracle.Listing) {
	var keys []string
	for k := range live {
		keys = append(keys, k)
	}
	want = oracle.List(keys, prefix, delim)
	fail := func(kind, f string, a ...interface{}) {
		ds = append(ds, disc{Kind: kind, Detail: fmt.Sprintf("backend=%s keys=%q prefix=%q delim=%q v2=%v: ", st.Kind, sortedCopy(keys), prefix, delim, v2) + fmt.Sprintf(f, a...)})
	}
	q := []string{}
	if prefix != "" {
		q = append(q, "prefix", prefix)
	}
	if delim != "" {
		q = append(q, "delimiter", delim)
	}
	if v2 {
		q = append(q, "list-type", "2")
	}
	doc, r := listDoc(st, bucket, q...)
	if doc == nil {
		if r.Panic != "" {
			fail("panic", "%s at %s", r.Panic, r.PanicSite)
		} else {
			fail("list-failed", "listing answered %s", r)
		}
		return
	}
	var got []string
	for _, c := range doc.Contents {
		got = append(got, c.Key)
		if b, ok := live[c.Key]; ok {
			if c.Size != int64(len(b)) || c.ETag != etagOf(b) {
				fail("entry-size-etag", "entry %q Size=%d ETag=%s, stored object has %d %s", c.Key, c.Size, c.ETag, len(b), etagOf(b))
			}
		}
	}
	if !eqStrings(got, want.Contents) {
		kind := "contents"
		if eqStrings(sortedCopy(got), want.Contents) {
			kind = "contents-order"
		}
		fail(kind, "Contents = %q want %q", got, want.Contents)
	}
	gp := doc.Prefixes()
	if !eqStrings(sortedCopy(gp), want.Prefixes) {
		fail("common-prefixes", "CommonPrefixes = %q want %q", gp, want.Prefixes)
	}
	if v2 {
		if doc.KeyCount == nil {
			if n := len(want.Contents) + len(want.Prefixes); n != 0 {
				fail("keycount", "KeyCount missing, want %d", n)
			}
		} else if int(*doc.KeyCount) != len(doc.Contents)+len(doc.CommonPrefixes) {
			fail("keycount", "KeyCount=%d but %d contents + %d prefixes returned", *doc.KeyCount, len(doc.Contents), len(doc.CommonPrefixes))
		}
	}
	if doc.IsTruncated {
		fail("truncated", "unpaginated listing of %d entries reports IsTruncated", len(got)+len(gp))
	}
	// Go API
	var pp *gofakes3.Prefix
	if prefix != "" || delim != "" {
		p := gofakes3.Prefix{Prefix: prefix, HasPrefix: prefix != "", Delimiter: delim, HasDelimiter: delim != ""}
		pp = &p
	}
	ol, err := st.Backend.ListBucket(bucket, pp, gofakes3.ListBucketPage{})
	if err != nil {
		fail("api-list-failed", "Backend.ListBucket: %v", err)
		return
	}
	var ag, ap []string
	for _, c := range ol.Contents {
		ag = append(ag, c.Key)
	}
	for _, p := range ol.CommonPrefixes {
		ap = append(ap, p.Prefix)
	}
	if !eqStrings(ag, want.Contents) || !eqStrings(sortedCopy(ap), want.Prefixes) {
		fail("api-listing", "Backend.ListBucket = %q + %q want %q + %q", ag, ap, want.Contents, want.Prefixes)
	}
	return
}

// c03Sync makes the bucket hold exactly the wanted keys (deleting what is there and not wanted).
type c03Bucket struct {
	st   *backends.Stack
	live map[string][]byte
}

func newC03Bucket(k backends.Kind) *c03Bucket {
	st := backends.Must(k, backends.Options{})
	if err := ensureBucket(st, "bk0"); err != nil {
		panic(err)
	}
	return &c03Bucket{st: st, live: map[string][]byte{}}
}

func (b *c03Bucket) sync(keys []string) error {
	want := map[string]bool{}
	for _, k := range keys {
		want[k] = true
	}
	// deletions first (a file may have to go before a directory of the same name can be made)
	for k := range b.live {
		if !want[k] {
			if r := del(b.st, "bk0", k); r.Status != 204 {
				return fmt.Errorf("delete %q: %s", k, r)
			}
			delete(b.live, k)
		}
	}
	for _, k := range keys {
		if _, ok := b.live[k]; !ok {
			// every third key arrives by server-side copy (c04Store): a listing entry describes the
			// stored object however it got there
			if r := c04Store(b.st, k, c03Body(k)); r.Status != 200 {
				return fmt.Errorf("put %q: %s", k, r)
			}
			b.live[k] = c03Body(k)
		}
	}
	return nil
}

func c03Replay(check string, raw json.RawMessage) ([]disc, error) {
	var cs c03Case
	if err := json.Unmarshal(raw, &cs); err != nil {
		return nil, err
	}
	b := newC03Bucket(cs.Backend)
	defer b.st.Close()
	if len(cs.Gone) > 0 {
		if err := b.sync(cs.Gone); err != nil {
			return nil, err
		}
	}
	if len(cs.Marked) > 0 {
		r := prog.NewRunner(b.st)
		r.M.Buckets["bk0"] = &prog.MBucket{Keys: map[string]*prog.MKey{}}
		if d := r.Step(prog.Op{K: "setver", B: "bk0", Status: "Enabled"}); len(d) > 0 {
			return d, nil
		}
		for _, k := range cs.Marked {
			put(b.st, "bk0", k, c03Body(k))
			del(b.st, "bk0", k)
		}
		for _, k := range cs.Keys {
			put(b.st, "bk0", k, c03Body(k))
			b.live[k] = c03Body(k)
		}
	} else if err := b.sync(cs.Keys); err != nil {
		return nil, err
	}
	for _, k := range cs.Absent {
		if _, ok := b.live[k]; !ok {
			del(b.st, "bk0", k)
		}
	}
	ds, _ := c03Check(b.st, "bk0", b.live, cs.Prefix, cs.Delim, cs.V2)
	return ds, nil
}

func TestC03(t *testing.T) {
	runProp(t, propDef{
		ID:    "C03",
		Level: "exploration",
		Rule: "cases = (backend, live key set, deleted keys, prefix, delimiter, V1/V2); bounded-exhaustive: all key sets of size <= S over the 18 keys of {a,b,/}^<=3 that neither start nor end with '/', " +
			"x all 27 prefixes not starting with '/', x delimiter in {none,'/'} on every backend and {'a','b'} on mem/bolt (restricted to the property's domain), x V1/V2, the bucket being reused so every earlier set is a delete history, and the directory parts of the live keys being deleted (they hold nothing) before listing; " +
			"random: richer keys (UTF-8, escaping, dots), constructed prefixes, put/overwrite/delete histories, deletes of names that hold nothing, delete markers and version deletions on mem; " +
			"non-trivial = the oracle listing has both contents and a common prefix, or the prefix filters out a live key, or the history contains a delete; distinct by (backend, key set, prefix, delimiter, version)",
		Replay: c03Replay,
		Run:    c03Run,
	})
}

func c03Run(t *testing.T, c *evid.Collector) {
	kinds := kindsFromEnv(backends.All)
	keys := c03Keys()
	prefixes := c03Prefixes()
	maxSet := map[backends.Kind]int{}
	for _, k := range kinds {
		maxSet[k] = evid.Scale(2, 3)
		if !evid.Thorough() && (k == backends.Mem || k == backends.Bolt) {
			maxSet[k] = 3
		}
	}
	record := func(cs c03Case, ds []disc, want oracle.Listing, nlive int, hadDelete bool, src string) bool {
		filtered := len(want.Contents)+len(want.Prefixes) > 0 && cs.Prefix != ""
		both := len(want.Contents) > 0 && len(want.Prefixes) > 0
		delMatch := false
		for _, g := range append(append([]string(nil), cs.Gone...), cs.Marked...) {
			if strings.HasPrefix(g, cs.Prefix) {
				live := false
				for _, k := range cs.Keys {
					live = live || k == g
				}
				delMatch = delMatch || !live
			}
		}
		nt := both || delMatch || (cs.Prefix != "" && nlive > len(want.Contents))
		labels := []string{"backend:" + string(cs.Backend), "src:" + src, "delim:" + cs.Delim}
		if both {
			labels = append(labels, "both-groups-present")
		}
		if filtered {
			labels = append(labels, "prefix-selects")
		}
		if len(want.Prefixes) > 0 {
			labels = append(labels, "has-common-prefix")
		}
		if hadDelete {
			labels = append(labels, "after-delete")
		}
		if len(cs.Absent) > 0 {
			labels = append(labels, "deleted-absent-key")
		}
		c.Case(evid.FP(mustJSON(cs)), nt, func() interface{} { return cs }, labels...)
		return report(c, "listing", ds, cs)
	}
	// ---- bounded-exhaustive
	nsets := 0
	for ki, k := range kinds {
		if evid.Shards() > 1 && ki%evid.Shards() != evid.Shard() {
			continue
		}
		b := newC03Bucket(k)
		var set []string
		var prevSets [][]string
		var rec func(start, size int)
		visit := func() {
			if k.IsFs() && fsConflict(set) {
				return
			}
			nsets++
			if err := b.sync(set); err != nil {
				cs := c03Case{Backend: k, Keys: append([]string(nil), set...)}
				report(c, "listing", dsc("setup-failed", "backend=%s cannot store key set %q after earlier sets: %v", k, set, err), cs)
				// start over with a fresh bucket so the enumeration can continue
				b.st.Close()
				b = newC03Bucket(k)
				return
			}
			var gone []string
			if len(prevSets) > 0 {
				gone = prevSets[len(prevSets)-1]
			}
			// deleting a key that holds nothing changes nothing, also when it is the directory part of
			// live keys
			var absent []string
			for _, key := range set {
				for i := 1; i < len(key); i++ {
					if key[i] == '/' {
						if _, ok := b.live[key[:i]]; !ok {
							absent = append(absent, key[:i])
						}
					}
				}
			}
			for _, a := range absent {
				if r := del(b.st, "bk0", a); r.Status != 204 {
					cs := c03Case{Backend: k, Keys: append([]string(nil), set...), Absent: absent}
					report(c, "listing", dsc("delete-absent", "backend=%s: deleting %q, which holds nothing, answered %s", k, a, r), cs)
				}
			}
			delims := []string{"", "/"}
			if !k.IsFs() {
				delims = append(delims, "a", "b")
			}
			for _, d := range delims {
				for _, p := range prefixes {
					if !c03InDomain(set, p, d) {
						continue
					}
					for _, v2 := range []bool{false, true} {
						ds, want := c03Check(b.st, "bk0", b.live, p, d, v2)
						cs := c03Case{Backend: k, Keys: append([]string(nil), set...), Gone: gone, Absent: absent, Prefix: p, Delim: d, V2: v2}
						record(cs, ds, want, len(set), len(gone) > 0, "exhaustive")
					}
				}
			}
			prevSets = append(prevSets[:0], append([]string(nil), set...))
		}
		rec = func(start, size int) {
			visit()
			if size == maxSet[k] {
				return
			}
			for i := start; i < len(keys); i++ {
				set = append(set, keys[i])
				rec(i+1, size+1)
				set = set[:len(set)-1]
			}
		}
		rec(0, 0)
		b.st.Close()
	}
	// ---- keys with consecutive delimiters (length 4-6, beyond the alphabet enumeration above); the
	// file system backends cannot store them
	for ki, k := range kinds {
		if k.IsFs() || (evid.Shards() > 1 && ki%evid.Shards() != evid.Shard()) {
			continue
		}
		b := newC03Bucket(k)
		u2 := []string{"a", "a/b", "a//a", "a//b", "a//b/a", "b//a"}
		p2 := []string{"", "a", "a/", "a//", "a//b", "a//b/", "b", "b/", "b//"}
		for mask := 1; mask < 1<<len(u2); mask++ {
			var set []string
			for i, key := range u2 {
				if mask&(1<<i) != 0 {
					set = append(set, key)
				}
			}
			if len(set) > 3 {
				continue
			}
			nsets++
			if err := b.sync(set); err != nil {
				report(c, "listing", dsc("setup-failed", "backend=%s cannot store key set %q: %v", k, set, err), c03Case{Backend: k, Keys: set})
				break
			}
			for _, d := range []string{"", "/"} {
				for _, p := range p2 {
					if !c03InDomain(set, p, d) {
						continue
					}
					for _, v2 := range []bool{false, true} {
						ds, want := c03Check(b.st, "bk0", b.live, p, d, v2)
						cs := c03Case{Backend: k, Keys: append([]string(nil), set...), Prefix: p, Delim: d, V2: v2}
						record(cs, ds, want, len(set), true, "exhaustive-doubled-delimiter")
					}
				}
			}
		}
		b.st.Close()
	}
	c.Set("exhaustive_scope", fmt.Sprintf("key sets of size <= %v over 18 keys x 27 prefixes x delimiters x V1/V2, plus (mem, bolt) sets of size <= 3 over 6 keys with consecutive delimiters x 9 prefixes; %d (backend,set) pairs enumerated: complete", maxSet, nsets))
	c.Exhaustive(false)

	// ---- fixed versioning histories on the memory backend: what is live after deletes made while
	// versioning is enabled or suspended (ignores the seed)
	if evid.Shard() == 0 {
		for _, k := range kinds {
			if k != backends.Mem {
				continue
			}
			en, su := "Enabled", "Suspended"
			type step struct{ op, arg string } // op: ver | put | del
			hs := [][]step{
				{{"ver", en}, {"put", "docs/k"}, {"ver", su}, {"del", "docs/k"}, {"del", "docs/k"}},
				{{"ver", en}, {"put", "docs/k"}, {"ver", su}, {"put", "docs/k"}, {"del", "docs/k"}},
				{{"ver", en}, {"put", "docs/k"}, {"put", "docs/k"}, {"ver", su}, {"del", "docs/k"}, {"put", "docs/j"}, {"del", "docs/k"}, {"ver", en}, {"del", "docs/k"}},
				{{"put", "docs/k"}, {"ver", en}, {"put", "docs/k"}, {"del", "docs/k"}, {"ver", su}, {"del", "docs/k"}, {"del", "docs/k"}, {"put", "docs/other"}},
				{{"put", "docs/k"}, {"ver", en}, {"ver", su}, {"put", "docs/k"}, {"ver", en}, {"put", "docs/k"}, {"ver", su}, {"del", "docs/k"}, {"del", "docs/k"}, {"ver", en}, {"put", "top"}},
				// the newest version or delete marker of a key removed by its ID: the one below it is current
				// again - also when that one was stored before the bucket was versioned
				{{"put", "docs/a/report"}, {"put", "docs/plain"}, {"ver", en}, {"put", "docs/a/report"}, {"delver", "docs/a/report"}, {"del", "docs/plain"}, {"delver", "docs/plain"}},
				{{"put", "docs/b/notes"}, {"ver", en}, {"del", "docs/b/notes"}, {"put", "docs/c"}, {"delver", "docs/b/notes"}},
				{{"ver", en}, {"put", "docs/k"}, {"put", "docs/k"}, {"del", "docs/k"}, {"delver", "docs/k"}, {"delver", "docs/k"}, {"put", "docs/j/x"}, {"delver", "docs/k"}, {"delver", "docs/j/x"}},
			}
			type c03Ver struct {
				id   string
				body []byte // nil: a delete marker
			}
			for hi, h := range hs {
				st := backends.Must(k, backends.Options{})
				if err := ensureBucket(st, "bk0"); err != nil {
					panic(err)
				}
				live := map[string][]byte{}
				var marked []string
				stack := map[string][]c03Ver{} // only read by histories that never suspend versioning
				for i, s := range h {
					switch s.op {
					case "delver":
						vs := stack[s.arg]
						top := vs[len(vs)-1]
						if top.id == "" {
							panic("harness: no version ID for the newest entry of " + s.arg)
						}
						if r := s3x.Do(st.Handler, &s3x.Req{Method: "DELETE", Path: "/bk0/" + s.arg, Query: s3x.Q("versionId", top.id)}); r.Status != 204 {
							panic("harness: " + r.String())
						}
						vs = vs[:len(vs)-1]
						stack[s.arg] = vs
						delete(live, s.arg)
						if len(vs) > 0 && vs[len(vs)-1].body != nil {
							live[s.arg] = vs[len(vs)-1].body
						}
					case "ver":
						s3x.Do(st.Handler, &s3x.Req{Method: "PUT", Path: "/bk0", Query: s3x.Q("versioning", s3x.Bare), Body: []byte(`<VersioningConfiguration><Status>` + s.arg + `</Status></VersioningConfiguration>`)})
					case "put":
						body := []byte(fmt.Sprintf("%s#%d", s.arg, i))
						r := put(st, "bk0", s.arg, body)
						if r.Status != 200 {
							panic("harness: " + r.String())
						}
						live[s.arg] = body
						stack[s.arg] = append(stack[s.arg], c03Ver{r.Header.Get("x-amz-version-id"), body})
					case "del":
						r := del(st, "bk0", s.arg)
						if r.Status != 204 {
							panic("harness: " + r.String())
						}
						stack[s.arg] = append(stack[s.arg], c03Ver{r.Header.Get("x-amz-version-id"), nil})
						delete(live, s.arg)
						marked = append(marked, s.arg)
					}
					// after every step
					for _, pd := range [][2]string{{"", ""}, {"", "/"}, {"docs/", "/"}, {"docs/", ""}, {"do", ""}} {
						for _, v2 := range []bool{false, true} {
							ds, want := c03Check(st, "bk0", live, pd[0], pd[1], v2)
							cs := c03Case{Backend: k, Keys: sortedKeys(live), Marked: append([]string(nil), marked...), Prefix: pd[0], Delim: pd[1], V2: v2}
							for j := range ds {
								ds[j].Detail = fmt.Sprintf("fixed versioning history %d after step %d (%s %s): ", hi, i, s.op, s.arg) + ds[j].Detail
							}
							record(cs, ds, want, len(live), true, "fixed-versioning-history")
						}
					}
				}
				st.Close()
			}
		}
	}

	// ---- a bucket deleted and created again under its name lists what was stored in it since, after
	// every upload (ignores the seed)
	if evid.Shard() == 0 {
		for _, k := range kinds {
			if k.IsSingle() {
				continue
			}
			st := backends.Must(k, backends.Options{})
			if err := ensureBucket(st, "bk0"); err != nil {
				panic(err)
			}
			live := map[string][]byte{}
			step := 0
			check := func(what string) {
				step++
				for _, pd := range [][2]string{{"", ""}, {"", "/"}, {"old/", "/"}, {"new/", ""}} {
					for _, v2 := range []bool{false, true} {
						ds, want := c03Check(st, "bk0", live, pd[0], pd[1], v2)
						cs := c03Case{Backend: k, Keys: sortedKeys(live), Prefix: pd[0], Delim: pd[1], V2: v2}
						for j := range ds {
							ds[j].Detail = fmt.Sprintf("bucket re-created under its name, step %d (%s): ", step, what) + ds[j].Detail
						}
						record(cs, ds, want, len(live), true, "fixed-recreated-bucket")
					}
				}
			}
			must := func(r *s3x.Resp, status int) {
				if r.Status != status {
					panic("harness: " + r.String())
				}
			}
			for round := 0; round < 2; round++ {
				for _, key := range []string{"old/a", "old/b", "old/c/d"}[:3-round] {
					live[key] = []byte(fmt.Sprintf("%s in incarnation %d", key, round))
					must(put(st, "bk0", key, live[key]), 200)
				}
				check("first keys")
				for key := range live {
					must(del(st, "bk0", key), 204)
					delete(live, key)
				}
				if round == 0 {
					check("emptied")
				}
				must(s3x.Do(st.Handler, &s3x.Req{Method: "DELETE", Path: "/bk0"}), 204)
				must(s3x.Do(st.Handler, &s3x.Req{Method: "PUT", Path: "/bk0"}), 200)
				for i := 0; i < 7; i++ {
					key := fmt.Sprintf("new/%c", 'r'+i)
					live[key] = []byte(fmt.Sprintf("%s after re-creation %d", key, round))
					must(put(st, "bk0", key, live[key]), 200)
					check("put " + key)
				}
				for key := range live {
					must(del(st, "bk0", key), 204)
					delete(live, key)
				}
			}
			st.Close()
		}
	}

	// ---- random: richer keys, histories, delete markers
	rapidRun(t, "random", evid.Scale(700, 8000), func(rt *rapid.T) {
		k := rapid.SampledFrom(kinds).Draw(rt, "backend")
		delim := "/"
		if !k.IsFs() && rapid.IntRange(0, 3).Draw(rt, "odd") == 0 {
			delim = rapid.SampledFrom([]string{"-", ".", "_", "é", " ", "%"}).Draw(rt, "delim")
		}
		st := backends.Must(k, backends.Options{})
		defer st.Close()
		if err := ensureBucket(st, "bk0"); err != nil {
			panic(err)
		}
		live := map[string][]byte{}
		var gone, marked, absent []string
		versioned := k == backends.Mem && rapid.IntRange(0, 2).Draw(rt, "versioned") == 0
		if versioned {
			body := []byte(`<VersioningConfiguration><Status>Enabled</Status></VersioningConfiguration>`)
			s3x.Do(st.Handler, &s3x.Req{Method: "PUT", Path: "/bk0", Query: s3x.Q("versioning", s3x.Bare), Body: body})
		}
		segGen := rapid.OneOf(rapid.StringMatching(`[a-c]{1,2}`), rapid.SampledFrom([]string{"x.y", ".h", "é", "日本", "a b", "a+b", "q?", "100%", "a-b", "a_b", "A"}))
		genKey := func() string {
			n := rapid.IntRange(1, 4).Draw(rt, "nseg")
			var segs []string
			for i := 0; i < n; i++ {
				segs = append(segs, segGen.Draw(rt, "seg"))
			}
			return strings.Join(segs, "/")
		}
		nops := rapid.IntRange(3, 25).Draw(rt, "nops")
		for i := 0; i < nops; i++ {
			if versioned && rapid.IntRange(0, 5).Draw(rt, "toggle") == 0 {
				// suspending and re-enabling versioning changes how puts and deletes are recorded, not
				// which keys are live
				status := rapid.SampledFrom([]string{"Suspended", "Suspended", "Enabled"}).Draw(rt, "status")
				s3x.Do(st.Handler, &s3x.Req{Method: "PUT", Path: "/bk0", Query: s3x.Q("versioning", s3x.Bare), Body: []byte(`<VersioningConfiguration><Status>` + status + `</Status></VersioningConfiguration>`)})
			}
			var key string
			if len(live)+len(marked) > 0 && rapid.Bool().Draw(rt, "reuse") {
				// a live key, or (versioned) one that was deleted before: deleted again, or written again
				ks := append(sortedKeys(live), marked...)
				key = rapid.SampledFrom(ks).Draw(rt, "lk")
			} else {
				key = genKey()
			}
			if strings.HasPrefix(key, delim) || strings.HasSuffix(key, delim) {
				continue
			}
			if i := strings.LastIndex(key, "/"); i > 0 && !versioned && rapid.IntRange(0, 7).Draw(rt, "deldir") == 0 {
				// delete what is only the directory part of a key: nothing is stored under that name
				if _, ok := live[key[:i]]; !ok {
					if r := del(st, "bk0", key[:i]); r.Status != 204 {
						rt.Fatalf("harness: delete %q: %s", key[:i], r)
					}
					absent = append(absent, key[:i])
				}
			}
			if k.IsFs() {
				conflict := false
				for o := range live {
					if strings.HasPrefix(o, key+"/") || strings.HasPrefix(key, o+"/") {
						conflict = true
					}
				}
				if conflict || (k.IsDir() && len(key) > 200) {
					continue
				}
			}
			if rapid.IntRange(0, 3).Draw(rt, "act") == 0 {
				if _, ok := live[key]; !ok && !versioned {
					continue
				}
				if r := del(st, "bk0", key); r.Status != 204 {
					rt.Fatalf("harness: delete %q: %s", key, r)
				}
				if _, ok := live[key]; ok {
					if versioned {
						marked = append(append([]string(nil), marked...), key)
					} else {
						gone = append(gone, key)
					}
				}
				delete(live, key)
			} else {
				body := []byte(fmt.Sprintf("%s#%d", key, i))
				if r := c04Store(st, key, body); r.Status != 200 {
					rt.Fatalf("harness: put %q: %s", key, r)
				}
				live[key] = body
				for mi, mk := range marked {
					if mk == key {
						marked = append(marked[:mi:mi], marked[mi+1:]...)
						break
					}
				}
			}
		}
		// prefixes constructed from live/gone keys
		var pool []string
		for kk := range live {
			pool = append(pool, kk)
		}
		pool = append(pool, gone...)
		pool = append(pool, marked...)
		sort.Strings(pool)
		for j := 0; j < 4; j++ {
			prefix := ""
			if len(pool) > 0 && rapid.IntRange(0, 5).Draw(rt, "pk") > 0 {
				base := rapid.SampledFrom(pool).Draw(rt, "pbase")
				cut := rapid.IntRange(0, len(base)).Draw(rt, "cut")
				prefix = base[:cut]
				for !validUTF8(prefix) {
					cut--
					prefix = base[:cut]
				}
				switch rapid.IntRange(0, 4).Draw(rt, "tweak") {
				case 0:
					prefix += "/"
				case 1:
					prefix += "a"
				}
			}
			d := delim
			if rapid.IntRange(0, 2).Draw(rt, "nodelim") == 0 {
				d = ""
			}
			if d != "" && strings.HasPrefix(prefix, d) {
				continue
			}
			v2 := rapid.Bool().Draw(rt, "v2")
			ds, want := c03Check(st, "bk0", live, prefix, d, v2)
			cs := c03Case{Backend: k, Keys: sortedKeys(live), Gone: gone, Marked: marked, Absent: absent, Prefix: prefix, Delim: d, V2: v2}
			src := "random"
			if len(marked) > 0 {
				src = "random-delete-markers"
			}
			if record(cs, ds, want, len(live), len(gone)+len(marked) > 0, src) {
				rt.Fatalf("C03 violated: %v", ds)
			}
		}
	})
}

func sortedKeys(m map[string][]byte) []string {
	ks := make([]string, 0, len(m))
	for k := range m {
		ks = append(ks, k)
	}
	sort.Strings(ks)
	return ks
}

func validUTF8(s string) bool { return strings.ToValidUTF8(s, "�") == s }

//go:build verif

package props

import (
	"encoding/json"
	"fmt"
	"net/url"
	"sort"
	"strings"
	"testing"

	"verif/harness/backends"
	"verif/harness/evid"
	"verif/harness/oracle"
	"verif/harness/prog"
	"verif/harness/s3x"

	"pgregory.net/rapid"
)

// C13 — version listings show each version once, flag the true latest, page completely.

var c13Keys = []string{"a", "b/x", "b/y", "c", "d"}

type c13Case struct {
	Ops     []prog.Op `json:"ops"`
	Prefix  string    `json:"prefix"`
	Delim   string    `json:"delim"`
	MaxKeys int       `json:"maxKeys,omitempty"` // 0 = unpaginated
	// explicit marker pair: index into the unpaginated listing (-1 = none)
	MarkerIdx int `json:"markerIdx"`
	// Enc: every listing request carries encoding-type=url (what boto3 sends); an answer that
	// declares EncodingType=url is decoded the way a client does
	Enc bool `json:"enc,omitempty"`
	// Mid: the listing is also taken, and judged, after every step of the history (a listing answers
	// for the moment it is taken, whatever was listed before)
	Mid bool `json:"mid,omitempty"`
}

// c13EncodeURL is set for the duration of one c13Exec (the checks run one at a time).
var c13EncodeURL bool

type c13Entry struct {
	Key, ID string
	Marker  bool
	Latest  bool
	Size    int64
	ETag    string
}

func (e c13Entry) String() string {
	return fmt.Sprintf("%s|%s|marker=%v|latest=%v|%d|%s", e.Key, e.ID, e.Marker, e.Latest, e.Size, e.ETag)
}

func c13List(st *backends.Stack, prefix, delim string, maxKeys int, keyMarker, verMarker string, hasMarker bool) (*s3x.VersionsDoc, *s3x.Resp) {
	q := []string{"versions", s3x.Bare}
	if prefix != "" {
		q = append(q, "prefix", prefix)
	}
	if delim != "" {
		q = append(q, "delimiter", delim)
	}
	if maxKeys > 0 {
		q = append(q, "max-keys", fmt.Sprint(maxKeys))
	}
	if hasMarker {
		q = append(q, "key-marker", keyMarker)
		if verMarker != "" {
			q = append(q, "version-id-marker", verMarker)
		}
	}
	if c13EncodeURL {
		q = append(q, "encoding-type", "url")
	}
	r := s3x.Do(st.Handler, &s3x.Req{Method: "GET", Path: "/bk0", Query: s3x.Q(q...)})
	if r.Status != 200 || r.Panic != "" {
		return nil, r
	}
	doc, err := s3x.ParseVersions(r.Body)
	if err != nil {
		return nil, r
	}
	if doc.EncodingType == "url" {
		dec := func(s string) string {
			if u, err := url.QueryUnescape(s); err == nil {
				return u
			}
			return s
		}
		for i := range doc.Entries {
			doc.Entries[i].Key = dec(doc.Entries[i].Key)
		}
		for i := range doc.CommonPrefixes {
			doc.CommonPrefixes[i] = dec(doc.CommonPrefixes[i])
		}
		doc.NextKeyMarker, doc.KeyMarker = dec(doc.NextKeyMarker), dec(doc.KeyMarker)
	}
	return doc, r
}

func c13Entries(doc *s3x.VersionsDoc) []c13Entry {
	var es []c13Entry
	for _, e := range doc.Entries {
		es = append(es, c13Entry{Key: e.Key, ID: e.VersionId, Marker: e.IsMarker, Latest: e.IsLatest, Size: e.Size, ETag: e.ETag})
	}
	return es
}

// c13CheckFull checks the unpaginated listing against the model.
func c13CheckFull(r *prog.Runner, prefix, delim string) (ds []disc, full []c13Entry) {
	mb := r.M.Buckets["bk0"]
	fail := func(kind, f string, a ...interface{}) {
		ds = append(ds, disc{Kind: kind, Detail: fmt.Sprintf("prefix=%q delim=%q: ", prefix, delim) + fmt.Sprintf(f, a...)})
	}
	doc, resp := c13List(r.St, prefix, delim, 0, "", "", false)
	if doc == nil {
		if resp.Panic != "" {
			fail("panic", "%s at %s", resp.Panic, resp.PanicSite)
		} else {
			fail("versions-list-failed", "answered %s", resp)
		}
		return
	}
	full = c13Entries(doc)
	var keys, withGhosts []string
	ghosts := map[string]*prog.MKey{}
	for k, mk := range mb.Keys {
		if len(mk.Entries) > 0 {
			keys = append(keys, k)
		} else {
			// no entry left in the model, but writes were made while versioning was not enabled:
			// the implementation may still hold (up to NullWrites) entries of its own for them
			ghosts[k] = mk
		}
		withGhosts = append(withGhosts, k)
	}
	want := oracle.List(keys, prefix, delim)
	wantMax := oracle.List(withGhosts, prefix, delim)
	// keys ascending, grouped
	var gotKeys, allKeys []string
	perGhost := map[string][]c13Entry{}
	for _, e := range full {
		if len(allKeys) == 0 || allKeys[len(allKeys)-1] != e.Key {
			allKeys = append(allKeys, e.Key)
			if ghosts[e.Key] == nil {
				gotKeys = append(gotKeys, e.Key)
			}
		}
		if ghosts[e.Key] != nil {
			perGhost[e.Key] = append(perGhost[e.Key], e)
		}
	}
	if !sort.StringsAreSorted(allKeys) {
		fail("version-keys", "keys in listing are not ascending / grouped: %q", allKeys)
		return
	}
	if !eqStrings(gotKeys, want.Contents) {
		fail("version-keys", "keys in listing (grouped, in order) = %q want %q", gotKeys, want.Contents)
		return
	}
	for k, es := range perGhost {
		if len(es) > ghosts[k].NullWrites {
			fail("version-count", "key %q: %d entries listed, the model holds none and recorded %d unversioned writes", k, len(es), ghosts[k].NullWrites)
		}
		for _, e := range es {
			if e.Latest && !e.Marker {
				fail("latest-wrong", "key %q reads as NoSuchKey, but the listing flags an object version (%s) as IsLatest", k, e.ID)
			}
		}
	}
	gotP := sortedCopy(doc.CommonPrefixes)
	if !subsetStrings(want.Prefixes, gotP) || !subsetStrings(gotP, wantMax.Prefixes) {
		fail("version-common-prefixes", "CommonPrefixes = %q want %q (at most %q)", doc.CommonPrefixes, want.Prefixes, wantMax.Prefixes)
	}
	if doc.IsTruncated {
		fail("truncated", "unpaginated version listing reports IsTruncated")
	}
	never := mb.Versioning == ""
	for _, k := range want.Contents {
		mk := mb.Keys[k]
		var got []c13Entry
		for _, e := range full {
			if e.Key == k {
				got = append(got, e)
			}
		}
		nonNull := 0
		for _, me := range mk.Entries {
			if !me.Null {
				nonNull++
			}
		}
		// the model holds at most one "null" entry; the implementation may keep every
		// entry written while versioning was not enabled (up to NullWrites of them)
		if len(got) < len(mk.Entries) || len(got) > nonNull+maxInt(mk.NullWrites, len(mk.Entries)-nonNull) {
			fail("version-count", "key %q: %d entries listed, the model holds %d (%d of them versioned, %d unversioned writes) (%v)", k, len(got), len(mk.Entries), nonNull, mk.NullWrites, got)
			continue
		}
		seen := map[string]int{}
		for _, e := range got {
			seen[e.ID]++
		}
		for id, n := range seen {
			if n > 1 && id != "null" {
				fail("version-duplicate", "key %q: version %s listed %d times", k, id, n)
			}
		}
		for _, me := range mk.Entries {
			if !me.Null && me.ID != "" && me.ID[0] != '?' {
				found := false
				for _, e := range got {
					if e.ID == me.ID {
						found = true
						if e.Marker != me.Marker || (!me.Marker && (e.Size != int64(len(me.Body)) || e.ETag != prog.ETag(me.Body))) {
							fail("version-entry", "key %q version %s listed as %v, model: marker=%v size=%d etag=%s", k, me.ID, e, me.Marker, len(me.Body), prog.ETag(me.Body))
						}
					}
				}
				if !found {
					fail("version-missing", "key %q: version %s not listed (%v)", k, me.ID, got)
				}
			}
		}
		for _, e := range got {
			if never && e.ID != "null" {
				fail("null-id", "key %q in a never-versioned bucket lists VersionId %q, want 'null'", k, e.ID)
			}
		}
		if never && len(got) == 1 && len(mk.Entries) == 1 && !mk.Entries[0].Marker {
			if got[0].Size != int64(len(mk.Entries[0].Body)) || got[0].ETag != prog.ETag(mk.Entries[0].Body) || got[0].Marker {
				fail("version-entry", "key %q (never versioned) listed as %v, stored object has %d bytes %s", k, got[0], len(mk.Entries[0].Body), prog.ETag(mk.Entries[0].Body))
			}
		}
		// exactly one IsLatest, and it is what an unqualified read resolves to
		nLatest := 0
		var latest c13Entry
		for _, e := range got {
			if e.Latest {
				nLatest++
				latest = e
			}
		}
		newest := mk.Entries[len(mk.Entries)-1]
		if nLatest != 1 {
			fail("islatest-count", "key %q: %d entries flagged IsLatest (%v)", k, nLatest, got)
		} else {
			okL := latest.Marker == newest.Marker
			if !newest.Marker {
				okL = okL && latest.Size == int64(len(newest.Body)) && latest.ETag == prog.ETag(newest.Body)
			}
			if !newest.Null && newest.ID != "" && newest.ID[0] != '?' {
				okL = okL && latest.ID == newest.ID
			}
			if !okL {
				fail("islatest-wrong", "key %q: IsLatest entry %v, but an unqualified read resolves to marker=%v id=%s size=%d", k, latest, newest.Marker, newest.ID, len(newest.Body))
			}
		}
	}
	return
}

func maxInt(a, b int) int {
	if a > b {
		return a
	}
	return b
}

func entriesEq(a, b []c13Entry) bool {
	if len(a) != len(b) {
		return false
	}
	for i := range a {
		if a[i] != b[i] {
			return false
		}
	}
	return true
}

// c13CheckPaged walks with the markers the server returns and compares the
// concatenation with the unpaginated listing.
func c13CheckPaged(r *prog.Runner, prefix, delim string, maxKeys int, full []c13Entry) (ds []disc, pages int) {
	fail := func(kind, f string, a ...interface{}) {
		ds = append(ds, disc{Kind: kind, Detail: fmt.Sprintf("prefix=%q delim=%q max-keys=%d: ", prefix, delim, maxKeys) + fmt.Sprintf(f, a...)})
	}
	var got []c13Entry
	km, vm, has := "", "", false
	for {
		doc, resp := c13List(r.St, prefix, delim, maxKeys, km, vm, has)
		if doc == nil {
			if resp.Panic != "" {
				fail("panic", "page %d (key-marker=%q version-id-marker=%q): %s at %s", pages, km, vm, resp.Panic, resp.PanicSite)
			} else {
				fail("versions-page-failed", "page %d (key-marker=%q version-id-marker=%q) answered %s", pages, km, vm, resp)
			}
			return
		}
		pages++
		es := c13Entries(doc)
		if len(es) > maxKeys {
			fail("page-too-long", "page has %d entries", len(es))
		}
		got = append(got, es...)
		if !doc.IsTruncated {
			break
		}
		if doc.NextKeyMarker == "" {
			fail("no-next-markers", "page %d is truncated (%d of %d entries so far) but supplies no NextKeyMarker/NextVersionIdMarker", pages, len(got), len(full))
			return
		}
		if pages > len(full)+3 {
			fail("no-termination", "walk did not terminate within %d pages for %d entries", pages, len(full))
			return
		}
		km, vm, has = doc.NextKeyMarker, doc.NextVersionIdMarker, true
	}
	if !entriesEq(got, full) {
		fail("paged-mismatch", "concatenated pages (%d entries) differ from the unpaginated listing (%d entries):\n got %v\nwant %v", len(got), len(full), got, full)
	}
	return
}

// c13CheckMarker lists from an explicit (key, version) pair naming an existing
// version: the answer must be the suffix of the unpaginated listing starting at
// that pair or just after it.
func c13CheckMarker(r *prog.Runner, prefix, delim string, full []c13Entry, idx int) (ds []disc) {
	m := full[idx]
	fail := func(kind, f string, a ...interface{}) {
		ds = append(ds, disc{Kind: kind, Detail: fmt.Sprintf("prefix=%q delim=%q key-marker=%q version-id-marker=%q: ", prefix, delim, m.Key, m.ID) + fmt.Sprintf(f, a...)})
	}
	if m.ID == "null" {
		// 'null' is what the listing displays for an unversioned entry; the pair names an
		// existing version only if it is the key's only entry displayed that way
		n := 0
		for _, e := range full {
			if e.Key == m.Key && e.ID == "null" {
				n++
			}
		}
		if n != 1 {
			return nil
		}
	}
	doc, resp := c13List(r.St, prefix, delim, 0, m.Key, m.ID, true)
	if doc == nil {
		if resp.Panic != "" {
			fail("panic", "%s at %s", resp.Panic, resp.PanicSite)
		} else {
			fail("versions-marker-failed", "answered %s", resp)
		}
		return
	}
	got := c13Entries(doc)
	if m.ID == "null" && idx > 0 && delim == "" {
		// The pair is spelled as the listing displays the entry, not as the server's own markers
		// spell it (those carry an internal ID). It has to be read the way the server's own
		// markers are: if the marker the server hands out after the first idx entries names the
		// next entry, pairs name where to resume; if it names the last entry returned, they name
		// what to resume after.
		if pd, _ := c13List(r.St, prefix, delim, idx, "", "", false); pd != nil && pd.IsTruncated {
			switch pd.NextKeyMarker {
			case full[idx].Key:
				if full[idx-1].Key != full[idx].Key && !entriesEq(got, full[idx:]) {
					fail("marker-convention", "the server's own marker after %d entries is %q (the next entry), so a pair names the entry to resume at; the pair naming entry %d returned %d entries, expected the %d from it on\n got %v\nfull %v", idx, pd.NextKeyMarker, idx, len(got), len(full)-idx, got, full)
				}
				return
			case full[idx-1].Key:
				if full[idx-1].Key != full[idx].Key && !entriesEq(got, full[idx+1:]) {
					fail("marker-convention", "the server's own marker after %d entries is %q (the last entry returned), so a pair names the entry to resume after; the pair naming entry %d returned %d entries, expected the %d after it\n got %v\nfull %v", idx, pd.NextKeyMarker, idx, len(got), len(full)-idx-1, got, full)
				}
				return
			}
		}
	}
	if !entriesEq(got, full[idx:]) && !entriesEq(got, full[idx+1:]) {
		fail("marker-suffix", "listing from entry %d of the unpaginated listing returned %d entries; expected the %d entries from it or the %d after it\n got %v\nfull %v", idx, len(got), len(full)-idx, len(full)-idx-1, got, full)
	}
	return
}

func c13Exec(cs c13Case) (ds []disc, info map[string]int) {
	info = map[string]int{}
	c13EncodeURL = cs.Enc
	defer func() { c13EncodeURL = false }()
	st := backends.Must(backends.Mem, backends.Options{})
	defer st.Close()
	r := prog.NewRunner(st)
	if d := r.Step(prog.Op{K: "mkbucket", B: "bk0"}); len(d) > 0 {
		return d, info
	}
	for i, op := range cs.Ops {
		if sd := r.Step(op); len(sd) > 0 {
			for j := range sd {
				sd[j].Detail = fmt.Sprintf("history step %d: %s", i, sd[j].Detail)
				sd[j].Kind = "history:" + sd[j].Kind
			}
			return sd, info
		}
		if cs.Mid {
			if md, _ := c13CheckFull(r, cs.Prefix, cs.Delim); len(md) > 0 {
				for j := range md {
					md[j].Detail = fmt.Sprintf("listing taken after history step %d: %s", i, md[j].Detail)
				}
				return md, info
			}
		}
	}
	mb := r.M.Buckets["bk0"]
	for _, mk := range mb.Keys {
		if len(mk.Entries) >= 2 {
			info["multi-version-keys"]++
		}
		if len(mk.Entries) > 0 && mk.Entries[len(mk.Entries)-1].Marker {
			info["latest-is-marker"]++
		}
		if len(mk.Entries) > 0 {
			info["keys"]++
		}
	}
	ds, full := c13CheckFull(r, cs.Prefix, cs.Delim)
	info["entries"] = len(full)
	if len(ds) > 0 {
		return
	}
	if cs.MaxKeys > 0 {
		pd, pages := c13CheckPaged(r, cs.Prefix, cs.Delim, cs.MaxKeys, full)
		info["pages"] = pages
		ds = append(ds, pd...)
	}
	if cs.MarkerIdx >= 0 && cs.MarkerIdx < len(full) {
		ds = append(ds, c13CheckMarker(r, cs.Prefix, cs.Delim, full, cs.MarkerIdx)...)
		info["explicit-marker"] = 1
	}
	return
}

func c13Replay(check string, raw json.RawMessage) ([]disc, error) {
	var cs c13Case
	if err := json.Unmarshal(raw, &cs); err != nil {
		return nil, err
	}
	ds, _ := c13Exec(cs)
	return ds, nil
}

func TestC13(t *testing.T) {
	runProp(t, propDef{
		ID:    "C13",
		Level: "exploration",
		Rule: "cases = (version history over keys {a,b/x,b/y,c,d} generated like C05 incl. never-versioned and suspended buckets, prefix, delimiter, max-keys, explicit marker pair); " +
			"for each history: the unpaginated ListObjectVersions is compared with the version-stack model (every entry once, keys ascending and grouped, one IsLatest per key = what an unqualified read resolves to, Size/ETag, 'null' IDs), " +
			"then every max-keys from 1 to entries+1 is walked with the markers the server returns and every (key,version) pair of the listing is used as an explicit marker; " +
			"non-trivial = a listing with >= 2 versions of one key and >= 2 keys, or a truncated page, or a key whose latest entry is a delete marker; distinct by (history, prefix, delimiter, max-keys, marker)",
		Replay: c13Replay,
		Run:    c13Run,
	})
}

func c13GenOp(rt *rapid.T) prog.Op {
	op := c05GenOp(rt)
	if rapid.IntRange(0, 7).Draw(rt, "copy") == 0 {
		// versions also come from server-side copies (onto another key, or onto the key itself)
		ks := []string{"a", "b/x", "b/y", "c", "d"}
		return prog.Op{K: "copy", B: "bk0", Key: rapid.SampledFrom(ks).Draw(rt, "dst"), SB: "bk0", SKey: rapid.SampledFrom(ks).Draw(rt, "src")}
	}
	remap := func(k string) string {
		// a < b/x < b/y < c < d: the group rolled up under delimiter '/' has plain keys on both sides
		if k == "k0" {
			return rapid.SampledFrom([]string{"a", "b/x", "c", "a+b"}).Draw(rt, "k0m")
		}
		return rapid.SampledFrom([]string{"b/y", "c", "d", "b/50%2Doff"}).Draw(rt, "k1m")
	}
	if op.Key != "" {
		op.Key = remap(op.Key)
	}
	seen := map[string]bool{}
	var ks []string
	var vr []int
	for i, k := range op.Keys {
		nk := remap(k)
		if !seen[nk] {
			seen[nk] = true
			ks = append(ks, nk)
			vr = append(vr, op.VRefs[i])
		}
	}
	op.Keys, op.VRefs = ks, vr
	return op
}

func c13Run(t *testing.T, c *evid.Collector) {
	record := func(cs c13Case, ds []disc, info map[string]int, src string) bool {
		nt := (info["multi-version-keys"] > 0 && info["keys"] >= 2) || info["pages"] >= 2 || info["latest-is-marker"] > 0
		var labels []string
		labels = append(labels, "src:"+src)
		if info["pages"] >= 2 {
			labels = append(labels, "truncated-page")
		}
		if info["latest-is-marker"] > 0 {
			labels = append(labels, "latest-is-delete-marker")
		}
		if info["multi-version-keys"] > 0 {
			labels = append(labels, "multi-version-key")
		}
		if info["explicit-marker"] > 0 {
			labels = append(labels, "explicit-marker-pair")
		}
		if cs.Delim != "" {
			labels = append(labels, "delimiter")
		}
		c.Case(evid.FP(mustJSON(cs)), nt, func() interface{} { return cs }, labels...)
		return report(c, "versions", ds, cs)
	}
	// fixed histories (ignore the seed)
	if evid.Shard() == 0 {
		en := prog.Op{K: "setver", B: "bk0", Status: "Enabled"}
		su := prog.Op{K: "setver", B: "bk0", Status: "Suspended"}
		p := func(k, b string) prog.Op { return prog.Op{K: "put", B: "bk0", Key: k, Body: []byte(b)} }
		d := func(k string) prog.Op { return prog.Op{K: "del", B: "bk0", Key: k} }
		hs := [][]prog.Op{
			{p("a", "1"), p("b", "2")},
			{en, p("a", "1")},
			{en, p("a", "1"), p("a", "22"), p("d", "3"), d("d"), p("b/x", "4"), p("b/x", "55"), p("b/y", "6")},
			{en, p("c", "old"), p("a", "1"), p("b/x", "2"), p("b/y", "3"), p("c", "new"), p("c", "newer"), p("d", "4")},
			{en, p("a", "1"), p("b/x", "2"), p("c", "after the group only"), p("c", "twice")},
			{p("a", "0"), en, p("a", "1"), d("a"), p("b", "x"), su, p("b", "y"), d("a")},
			{en, p("a", "1"), p("a", "2"), p("a", "3"), {K: "delver", B: "bk0", Key: "a", Ref: -1}, p("b", "1")},
			{en, p("a", "1"), p("a", "22"), p("b/x", "333"), {K: "copy", B: "bk0", Key: "c", SB: "bk0", SKey: "a"}, {K: "copy", B: "bk0", Key: "a", SB: "bk0", SKey: "b/x"}, p("c", "4444"), {K: "copy", B: "bk0", Key: "c", SB: "bk0", SKey: "c"}},
			// versions that come from completed multipart uploads, and plain uploads on top of them
			{en, {K: "init", B: "bk0", Key: "a"}, {K: "part", Ref: 0, PartN: 1, Body: []byte("part one ")}, {K: "part", Ref: 0, PartN: 2, Body: []byte("part two")}, {K: "complete", Ref: 0, Parts: []prog.Part{{N: 1}, {N: 2}}}, p("a", "plain on top"), p("b/x", "2"),
				{K: "copy", B: "bk0", Key: "a", SB: "bk0", SKey: "b/x"}},
			{{K: "init", B: "bk0", Key: "c"}, {K: "part", Ref: 0, PartN: 1, Body: []byte("only part")}, {K: "complete", Ref: 0, Parts: []prog.Part{{N: 1}}}, p("c", "plain on top, never versioned"), p("a", "1")},
			{p("a", "1"), {K: "copy", B: "bk0", Key: "b", SB: "bk0", SKey: "a"}, en, {K: "copy", B: "bk0", Key: "b", SB: "bk0", SKey: "a"}, su, {K: "copy", B: "bk0", Key: "b", SB: "bk0", SKey: "b"}},
		}
		for _, h := range hs {
			for _, pd := range [][2]string{{"", ""}, {"", "/"}, {"b/", "/"}, {"a", ""}, {"b", ""}} {
				for mk := 0; mk <= 9; mk++ {
					cs := c13Case{Ops: h, Prefix: pd[0], Delim: pd[1], MaxKeys: mk, MarkerIdx: mk - 1, Mid: mk == 1}
					ds, info := c13Exec(cs)
					record(cs, ds, info, "fixed")
				}
			}
		}
	}
	rapidRun(t, "random", evid.Scale(2500, 30000), func(rt *rapid.T) {
		var ops []prog.Op
		if rapid.IntRange(0, 4).Draw(rt, "start") > 0 {
			ops = append(ops, prog.Op{K: "setver", B: "bk0", Status: "Enabled"})
		}
		n := rapid.IntRange(3, 30).Draw(rt, "n")
		for i := 0; i < n; i++ {
			ops = append(ops, c13GenOp(rt))
		}
		pd := rapid.SampledFrom([][2]string{{"", ""}, {"", ""}, {"", "/"}, {"", "/"}, {"b/", "/"}, {"b", ""}, {"a", ""}, {"b", "/"}, {"c", "/"}, {"b/x", ""}}).Draw(rt, "pd")
		base := c13Case{Ops: ops, Prefix: pd[0], Delim: pd[1], MarkerIdx: -1, Enc: rapid.IntRange(0, 2).Draw(rt, "enc") == 0, Mid: rapid.IntRange(0, 2).Draw(rt, "mid") == 0}
		ds, info := c13Exec(base)
		if record(base, ds, info, "random") {
			rt.Fatalf("C13 violated: %v", ds)
		}
		if len(ds) > 0 {
			return
		}
		nent := info["entries"]
		// every page size and every marker pair (bounded for long listings)
		for mk := 1; mk <= nent+1 && mk <= 12; mk++ {
			cs := base
			cs.MaxKeys = mk
			cs.MarkerIdx = mk - 1
			ds, info := c13Exec(cs)
			if record(cs, ds, info, "random") {
				rt.Fatalf("C13 violated: %v", ds)
			}
		}
	})
	_ = strings.Join
	_ = sort.Strings
}

func subsetStrings(a, b []string) bool {
	in := map[string]bool{}
	for _, x := range b {
		in[x] = true
	}
	for _, x := range a {
		if !in[x] {
			return false
		}
	}
	return true
}

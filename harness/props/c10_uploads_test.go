package props

import (
	"fmt"
	"sort"
	"strings"
	"testing"

	"pgregory.net/rapid"

	"verif/harness/backends"
	"verif/harness/evid"
	"verif/harness/s3x"
)

// Multipart requests name a (bucket, key) and an upload ID. An ID issued for one (bucket, key)
// quoted in a request addressed to another one must not let that request read or change the
// upload it was issued for, nor store anything under the addressed key.

type c10UpOp struct {
	K    string `json:"op"` // init | part | abort | complete | lparts
	B    string `json:"b"`
	Key  string `json:"key"`
	Up   int    `json:"up"` // index of the upload (in creation order) whose ID the request quotes
	N    int    `json:"n,omitempty"`
	Body string `json:"body,omitempty"`
}

type c10UpCase struct {
	Backend backends.Kind `json:"backend"`
	Ops     []c10UpOp     `json:"ops"`
}

type c10MUpload struct {
	id, b, key string
	parts      map[int]string
	done       bool
}

// c10UploadsExec runs the ops against a fresh stack and a model; foreign counts the requests that
// quoted the ID of a pending upload of another (bucket, key).
func c10UploadsExec(cs c10UpCase) (ds []disc, foreign int) {
	st := backends.Must(cs.Backend, backends.Options{})
	defer st.Close()
	bs := []string{"bk0", "bk1"}
	if cs.Backend.IsSingle() {
		bs = []string{"bk0"}
	}
	for _, b := range bs {
		if err := ensureBucket(st, b); err != nil {
			panic(err)
		}
	}
	keys := []string{"k", "j"}
	var ups []*c10MUpload
	objects := map[string]string{} // "b\x00key" -> body
	h := st.Handler
	fail := func(kind, format string, a ...interface{}) {
		ds = append(ds, dsc(kind, "backend=%s: "+format, append([]interface{}{cs.Backend}, a...)...)...)
	}
	completeDoc := func(u *c10MUpload) (string, string) {
		var ns []int
		for n := range u.parts {
			ns = append(ns, n)
		}
		sort.Ints(ns)
		var sb, body strings.Builder
		sb.WriteString("<CompleteMultipartUpload>")
		for _, n := range ns {
			fmt.Fprintf(&sb, "<Part><PartNumber>%d</PartNumber><ETag>%s</ETag></Part>", n, xmlEsc(etagOf([]byte(u.parts[n]))))
			body.WriteString(u.parts[n])
		}
		sb.WriteString("</CompleteMultipartUpload>")
		return sb.String(), body.String()
	}
	verify := func(after string) {
		for i, u := range ups {
			r := s3x.Do(h, &s3x.Req{Method: "GET", Path: "/" + u.b + "/" + u.key, Query: s3x.Q("uploadId", u.id)})
			if u.done {
				if r.Status == 200 {
					fail("finished-upload-listed", "%s: upload #%d (%s/%s id %s) was completed or aborted but ListParts answers 200", after, i, u.b, u.key, u.id)
				}
				continue
			}
			var doc s3x.ListPartsDoc
			if r.Status != 200 || r.XML(&doc) != nil {
				fail("upload-lost", "%s: pending upload #%d (%s/%s id %s): ListParts answers %s", after, i, u.b, u.key, u.id, r)
				continue
			}
			var got, want []string
			for _, p := range doc.Parts {
				got = append(got, fmt.Sprintf("%d:%d:%s", p.PartNumber, p.Size, p.ETag))
			}
			for n, body := range u.parts {
				want = append(want, fmt.Sprintf("%d:%d:%s", n, len(body), etagOf([]byte(body))))
			}
			sort.Strings(got)
			sort.Strings(want)
			if strings.Join(got, " ") != strings.Join(want, " ") {
				fail("upload-changed", "%s: pending upload #%d (%s/%s id %s) holds parts [%s], want [%s]", after, i, u.b, u.key, u.id, strings.Join(got, " "), strings.Join(want, " "))
			}
		}
		for _, b := range bs {
			r := s3x.Do(h, &s3x.Req{Method: "GET", Path: "/" + b, Query: s3x.Q("uploads", s3x.Bare)})
			var doc s3x.ListUploadsDoc
			had := false
			for _, u := range ups {
				had = had || u.b == b
			}
			if !had && r.Status == 404 && r.ErrCode() == "NoSuchUpload" {
				// a bucket that never had an upload answers like this; nothing to compare
			} else if r.Status != 200 || r.XML(&doc) != nil {
				fail("uploads-unlistable", "%s: ListMultipartUploads of %s answers %s", after, b, r)
				continue
			}
			var got, want []string
			for _, e := range doc.Uploads {
				got = append(got, e.Key+"#"+e.UploadId)
			}
			for _, u := range ups {
				if !u.done && u.b == b {
					want = append(want, u.key+"#"+u.id)
				}
			}
			sort.Strings(got)
			sort.Strings(want)
			if strings.Join(got, " ") != strings.Join(want, " ") {
				fail("uploads-listing", "%s: bucket %s lists the uploads [%s], want [%s]", after, b, strings.Join(got, " "), strings.Join(want, " "))
			}
			for _, key := range keys {
				g := get(st, b, key)
				want, ok := objects[b+"\x00"+key]
				switch {
				case ok && (g.Status != 200 || string(g.Body) != want):
					fail("object-changed", "%s: GET %s/%s: %s, want the %d bytes %q", after, b, key, g, len(want), want)
				case !ok && g.Status != 404:
					fail("object-appeared", "%s: GET %s/%s: %s, but nothing was stored under that key", after, b, key, g)
				}
			}
		}
	}
	for i, op := range cs.Ops {
		if !contains(bs, op.B) {
			continue
		}
		desc := fmt.Sprintf("after step %d %+v", i, op)
		if op.K == "init" {
			r := s3x.Do(h, &s3x.Req{Method: "POST", Path: "/" + op.B + "/" + op.Key, Query: s3x.Q("uploads", s3x.Bare)})
			var d s3x.InitiateDoc
			if r.Status != 200 || r.XML(&d) != nil || d.UploadId == "" {
				fail("initiate-refused", "%s: %s", desc, r)
				return
			}
			ups = append(ups, &c10MUpload{id: d.UploadId, b: op.B, key: op.Key, parts: map[int]string{}})
			verify(desc)
			continue
		}
		if len(ups) == 0 {
			continue
		}
		u := ups[op.Up%len(ups)]
		own := u.b == op.B && u.key == op.Key
		live := own && !u.done
		if !own && !u.done {
			foreign++
		}
		path := "/" + op.B + "/" + op.Key
		switch op.K {
		case "part":
			n := 1 + op.N%3
			r := s3x.Do(h, &s3x.Req{Method: "PUT", Path: path, Query: s3x.Q("partNumber", fmt.Sprint(n), "uploadId", u.id), Body: []byte(op.Body)})
			if live {
				if r.Status != 200 {
					fail("part-refused", "%s: %s", desc, r)
					return
				}
				u.parts[n] = op.Body
			} else if r.Status/100 == 2 {
				fail("foreign-id-accepted", "%s: the upload ID %s belongs to %s/%s (done=%v) but the part was accepted: %s", desc, u.id, u.b, u.key, u.done, r)
			}
		case "abort":
			r := s3x.Do(h, &s3x.Req{Method: "DELETE", Path: path, Query: s3x.Q("uploadId", u.id)})
			if live {
				if r.Status != 204 {
					fail("abort-refused", "%s: %s", desc, r)
					return
				}
				u.done = true
			}
		case "complete":
			if len(u.parts) == 0 {
				continue
			}
			doc, body := completeDoc(u)
			r := s3x.Do(h, &s3x.Req{Method: "POST", Path: path, Query: s3x.Q("uploadId", u.id), Body: []byte(doc)})
			if live {
				if r.Status != 200 {
					fail("complete-refused", "%s: %s", desc, r)
					return
				}
				u.done = true
				objects[op.B+"\x00"+op.Key] = body
			} else if r.Status/100 == 2 && r.ErrCode() == "" {
				fail("foreign-id-accepted", "%s: the upload ID %s belongs to %s/%s (done=%v) but the completion was accepted: %s", desc, u.id, u.b, u.key, u.done, r)
			}
		case "lparts":
			r := s3x.Do(h, &s3x.Req{Method: "GET", Path: path, Query: s3x.Q("uploadId", u.id)})
			var doc s3x.ListPartsDoc
			if !live && r.Status == 200 && r.XML(&doc) == nil && len(doc.Parts) > 0 {
				fail("foreign-parts-read", "%s: the upload ID %s belongs to %s/%s (done=%v) but its %d parts are listed through %s", desc, u.id, u.b, u.key, u.done, len(doc.Parts), path)
			}
		}
		verify(desc)
	}
	return ds, foreign
}

func c10UploadsRun(t *testing.T, c *evid.Collector, kinds []backends.Kind) {
	record := func(cs c10UpCase, ds []disc, foreign int, src string) bool {
		labels := []string{"backend:" + string(cs.Backend), "src:" + src, "check:uploads"}
		if foreign > 0 {
			labels = append(labels, "foreign-upload-id")
		}
		c.Case(evid.FP("uploads", mustJSON(cs)), foreign > 0, func() interface{} { return cs }, labels...)
		return report(c, "uploads", ds, cs)
	}
	// fixed: the ID of bk0/k's upload quoted to other keys and buckets, with and without uploads of their own
	if evid.Shard() == 0 {
		for _, k := range kinds {
			for _, other := range [][2]string{{"bk1", "k"}, {"bk1", "j"}, {"bk0", "j"}} {
				for _, prime := range []string{"none", "pending", "finished", "aborted"} {
					cs := c10UpCase{Backend: k, Ops: []c10UpOp{{K: "init", B: "bk0", Key: "k"}, {K: "part", B: "bk0", Key: "k", Up: 0, N: 0, Body: "AAAA"}}}
					switch prime {
					case "pending":
						cs.Ops = append(cs.Ops, c10UpOp{K: "init", B: other[0], Key: other[1]})
					case "finished":
						cs.Ops = append(cs.Ops, c10UpOp{K: "init", B: other[0], Key: "j"}, c10UpOp{K: "part", B: other[0], Key: "j", Up: 1, Body: "own"}, c10UpOp{K: "complete", B: other[0], Key: "j", Up: 1})
					case "aborted":
						cs.Ops = append(cs.Ops, c10UpOp{K: "init", B: other[0], Key: other[1]}, c10UpOp{K: "abort", B: other[0], Key: other[1], Up: 1})
					}
					for _, opk := range []string{"lparts", "part", "complete", "abort"} {
						cs.Ops = append(cs.Ops, c10UpOp{K: opk, B: other[0], Key: other[1], Up: 0, N: 0, Body: "BBBBBB"})
					}
					cs.Ops = append(cs.Ops, c10UpOp{K: "complete", B: "bk0", Key: "k", Up: 0})
					ds, foreign := c10UploadsExec(cs)
					record(cs, ds, foreign, "fixed")
				}
			}
		}
	}
	rapidRun(t, "uploads", evid.Scale(150, 4000), func(rt *rapid.T) {
		k := rapid.SampledFrom(kinds).Draw(rt, "backend")
		bs := []string{"bk0", "bk1"}
		if k.IsSingle() {
			bs = []string{"bk0"}
		}
		type bk struct{ b, key string }
		var made []bk
		cs := c10UpCase{Backend: k}
		nops := rapid.IntRange(3, 14).Draw(rt, "nops")
		for i := 0; i < nops; i++ {
			kind := "init"
			if len(made) > 0 {
				kind = rapid.SampledFrom([]string{"init", "part", "part", "part", "abort", "complete", "lparts"}).Draw(rt, "kind")
			}
			op := c10UpOp{K: kind, B: rapid.SampledFrom(bs).Draw(rt, "b"), Key: rapid.SampledFrom([]string{"k", "j"}).Draw(rt, "key")}
			if kind == "init" {
				made = append(made, bk{op.B, op.Key})
			} else {
				op.Up = rapid.IntRange(0, len(made)-1).Draw(rt, "up")
				if rapid.Bool().Draw(rt, "own") {
					op.B, op.Key = made[op.Up].b, made[op.Up].key
				}
				op.N = rapid.IntRange(0, 2).Draw(rt, "n")
				op.Body = fmt.Sprintf("part-body-%d-%s", i, strings.Repeat("x", rapid.IntRange(0, 40).Draw(rt, "len")))
			}
			cs.Ops = append(cs.Ops, op)
		}
		ds, foreign := c10UploadsExec(cs)
		if record(cs, ds, foreign, "random") {
			rt.Fatalf("C10 violated: %v", ds)
		}
	})
}

//go:build verif

package props

import (
	"bytes"
	"crypto/md5"
	"encoding/hex"
	"encoding/json"
	"fmt"
	"io"
	"os"
	"path"
	"path/filepath"
	"runtime/debug"
	"sort"
	"strings"
	"testing"

	"verif/harness/backends"
	"verif/harness/evid"
	"verif/harness/prog"
	"verif/harness/s3x"

	"github.com/johannesboyne/gofakes3"
	"pgregory.net/rapid"
)

// C10 — buckets and keys are independent namespaces; internals are not addressable.

type c10Op struct {
	K    string `json:"op"` // put | get | head | del | mdel | copy-to | copy-from | complete | api-put | api-get | api-del | list-prefix | mkbucket | rmbucket | api-rmbucket | api-force-rmbucket
	B    string `json:"b"`
	Key  string `json:"key"`
	Body string `json:"body,omitempty"`
}

type c10Case struct {
	Backend backends.Kind `json:"backend"`
	Ops     []c10Op       `json:"ops"`
	// HostStyle: the server runs with the host base "s3.test"; the ops "h-put", "h-get", "h-head",
	// "h-del" address <bucket>.s3.test with the key alone on the request line, everything else
	// (the observers included) uses the base itself as Host and so falls back to path-style
	HostStyle bool `json:"hostStyle,omitempty"`
	// Versioned: versioning is enabled on the buckets before the first op (memory backend): deletes
	// leave delete markers, writes keep the older versions
	Versioned bool `json:"versioned,omitempty"`
}

var c10Hostile = []string{".", "..", "a/../b", "../x", "../bk1/x", "../bk1/a", "../../metadata/bk0/x", "../../metadata/bk1/a-x", "../../buckets2/x", "../../root2/x", "../bk0", "../bk1",
	"a//b", "a/./b", "d/./x", "d/../a", "./a", "a/.", "a/..", "d/..", "d/x/..", ".hidden", "..hidden", "...", "a\\b", "..\\x", "..\\bk1\\a", "%2e%2e%2f", "%2e%2e/bk1/a", "d", "d/", "d/x/y", "a/b", "a/b/c/d", "d/x/y/z/w",
	"_meta", "bucket/bk0", "metadata", "buckets", "metadata/bk0/a", ".modtime-resolution", "A", "é", "é", "a b", "a+b", "a%2Fb", "a_b", "d_x", "d\\x",
	strings.Repeat("s", 255), strings.Repeat("s", 256), strings.Repeat("l", 200) + "/" + strings.Repeat("m", 200), "\x00", "a\x00b", "nul\x00", "a\nb", " ", " a", "a ", "*", "?", "a?b", "a#b", "..a/..b", "a/b/../../../x"}

// bucket names that must not reach another bucket or a backend's internals
var c10HostileBuckets = []string{".", "..", "_META", "_Meta", "_meta", "BK0", "Bk1", "bk0.", "bk", "bk00", "bk0x", "%2e", "%2E%2E", "buckets", "metadata", "bk0%2Fa", "bk0\\a", "bucket", "-bk0", "bk0-"}

var c10Normal = []string{"a", "d/x", "d/y", "z", "new"}

// initial contents
var c10Init = map[string]map[string]string{
	"bk0": {"a": "bk0-a", "d/x": "bk0-dx", "d/y": "bk0-dy"},
	"bk1": {"a": "bk1-a", "z": "bk1-z"},
}

type c10Env struct {
	st      *backends.Stack
	buckets []string
	// known is every key the harness ever addressed successfully, per bucket
	known map[string]map[string]bool
}

func newC10Env(k backends.Kind, hostStyle ...bool) *c10Env {
	opts := backends.Options{}
	if len(hostStyle) > 0 && hostStyle[0] {
		opts.HostBases = []string{"s3.test"}
	}
	st := backends.Must(k, opts)
	e := &c10Env{st: st, known: map[string]map[string]bool{}}
	bs := []string{"bk0", "bk1"}
	if k.IsSingle() {
		bs = []string{"bk0"}
	}
	for _, b := range bs {
		if err := ensureBucket(st, b); err != nil {
			panic(err)
		}
		e.known[b] = map[string]bool{}
		for key, body := range c10Init[b] {
			if r := put(st, b, key, []byte(body), "X-Amz-Meta-Init", b+"/"+key); r.Status != 200 {
				panic("harness: " + r.String())
			}
			e.known[b][key] = true
		}
	}
	e.buckets = bs
	// sentinels beside the storage roots (real directories)
	if d := st.Dir(); d != "" {
		for _, p := range []string{"sentinel.txt", "root2/keep", "root/sentinel", "root/buckets2/keep", "root/metadata2/keep", "bucket2/keep", "meta2/keep", "root/buckets2x/keep-dir/k"} {
			full := filepath.Join(d, p)
			if !k.IsSingle() && (strings.HasPrefix(p, "bucket2") || strings.HasPrefix(p, "meta2")) {
				continue
			}
			if k.IsSingle() && strings.HasPrefix(p, "root") {
				continue
			}
			os.MkdirAll(filepath.Dir(full), 0700)
			os.WriteFile(full, []byte("sentinel "+p), 0600)
		}
	}
	return e
}

// snapshot: everything observable about the store, per (bucket,key) and per bucket.
type c10Snap struct {
	Buckets string
	Keys    map[string]string            // "bucket\x00key" -> observation
	Lists   map[string]string            // bucket -> listing error ("" = listed fine)
	Entries map[string]map[string]string // bucket -> key -> size:etag
	Groups  map[string]map[string]bool   // bucket -> common prefixes of the '/'-delimited listing
	Disk    map[string]string            // path -> size:md5 (real directories)
}

func (e *c10Env) snap() *c10Snap {
	s := &c10Snap{Keys: map[string]string{}, Lists: map[string]string{}, Entries: map[string]map[string]string{}, Groups: map[string]map[string]bool{}}
	r := s3x.Do(e.st.Handler, &s3x.Req{Method: "GET", Path: "/"})
	var bd s3x.BucketsDoc
	r.XML(&bd)
	names := bd.Names()
	sort.Strings(names)
	s.Buckets = fmt.Sprintf("%d %v", r.Status, names)
	for _, b := range e.buckets {
		var keys []string
		for k := range e.known[b] {
			keys = append(keys, k)
		}
		sort.Strings(keys)
		for _, k := range keys {
			g := s3x.Do(e.st.Handler, &s3x.Req{Method: "GET", Path: "/" + b + "/" + k})
			// every header that is object metadata (not Last-Modified: the clock may tick)
			var mh []string
			for h, v := range g.Header {
				if strings.HasPrefix(h, "X-Amz-") && h != "X-Amz-Id-2" && h != "X-Amz-Request-Id" || h == "Content-Type" || h == "Content-Encoding" || h == "Content-Disposition" {
					mh = append(mh, h+"="+strings.Join(v, ","))
				}
			}
			sort.Strings(mh)
			obs := fmt.Sprintf("%d %s len=%s etag=%s meta=%s", g.Status, md5hex(g.Body), g.Header.Get("Content-Length"), g.Header.Get("ETag"), strings.Join(mh, ";"))
			if g.Panic != "" {
				obs = "panic " + g.PanicSite
			}
			s.Keys[b+"\x00"+k] = obs
		}
		ol, err := c10SafeList(e.st, b, nil)
		if err != nil {
			s.Lists[b] = "error: " + err.Error()
		} else {
			m := map[string]string{}
			for _, c := range ol.Contents {
				m[c.Key] = fmt.Sprintf("%d:%s", c.Size, c.ETag)
			}
			s.Entries[b] = m
		}
		slash := "/"
		if dl, err := c10SafeList(e.st, b, &gofakes3.Prefix{HasDelimiter: true, Delimiter: slash}); err == nil {
			g := map[string]bool{}
			for _, cp := range dl.CommonPrefixes {
				g[cp.Prefix] = true
			}
			s.Groups[b] = g
		}
	}
	if d := e.st.Dir(); d != "" && e.st.Kind.IsDir() {
		s.Disk = map[string]string{}
		filepath.Walk(d, func(p string, info os.FileInfo, err error) error {
			if err != nil {
				return nil
			}
			rel, _ := filepath.Rel(d, p)
			if info.IsDir() {
				s.Disk[rel+"/"] = "dir"
				return nil
			}
			f, err := os.Open(p)
			if err != nil {
				s.Disk[rel] = "unreadable"
				return nil
			}
			h := md5.New()
			io.Copy(h, f)
			f.Close()
			s.Disk[rel] = fmt.Sprintf("%d:%s", info.Size(), hex.EncodeToString(h.Sum(nil)))
			return nil
		})
	}
	return s
}

// aliases returns the keys of the bucket that a file-system backend may legitimately
// treat as the same object as key (identical cleaned path inside the bucket).
func c10Alias(k1, k2 string) bool {
	return path.Clean("/"+k1) == path.Clean("/"+k2)
}

// c10SafeList lists through the Go API; a panic of the backend becomes an error (and so a listing
// that differs from the one before).
func c10SafeList(st *backends.Stack, b string, p *gofakes3.Prefix) (ol *gofakes3.ObjectList, err error) {
	defer func() {
		if r := recover(); r != nil {
			ol, err = nil, fmt.Errorf("panic: %v", r)
		}
	}()
	return st.Backend.ListBucket(b, p, gofakes3.ListBucketPage{})
}

func (e *c10Env) exec(op c10Op) *s3x.Resp {
	st := e.st
	h := st.Handler
	body := []byte(op.Body)
	st.GuardReset()
	switch op.K {
	case "h-put":
		return s3x.Do(h, &s3x.Req{Method: "PUT", Host: op.B + ".s3.test", Path: "/" + op.Key, Body: body, Header: s3x.H("X-Amz-Meta-Init", "hostile")})
	case "h-get":
		return s3x.Do(h, &s3x.Req{Method: "GET", Host: op.B + ".s3.test", Path: "/" + op.Key})
	case "h-head":
		return s3x.Do(h, &s3x.Req{Method: "HEAD", Host: op.B + ".s3.test", Path: "/" + op.Key})
	case "h-del":
		return s3x.Do(h, &s3x.Req{Method: "DELETE", Host: op.B + ".s3.test", Path: "/" + op.Key})
	case "put":
		return s3x.Do(h, &s3x.Req{Method: "PUT", Path: "/" + op.B + "/" + op.Key, Body: body, Header: s3x.H("X-Amz-Meta-Init", "hostile")})
	case "get":
		return s3x.Do(h, &s3x.Req{Method: "GET", Path: "/" + op.B + "/" + op.Key})
	case "head":
		return s3x.Do(h, &s3x.Req{Method: "HEAD", Path: "/" + op.B + "/" + op.Key})
	case "del":
		return s3x.Do(h, &s3x.Req{Method: "DELETE", Path: "/" + op.B + "/" + op.Key})
	case "delver-all":
		// every version and delete marker of the key removed by its ID, newest first (the order the
		// version listing gives, and what tools that empty a versioned bucket do)
		last := &s3x.Resp{Status: 204}
		for round := 0; round < 20; round++ {
			lv := s3x.Do(h, &s3x.Req{Method: "GET", Path: "/" + op.B, Query: s3x.Q("versions", s3x.Bare, "prefix", op.Key)})
			if lv.Panic != "" || lv.Status != 200 {
				return lv
			}
			doc, err := s3x.ParseVersions(lv.Body)
			if err != nil {
				panic("harness: version listing: " + err.Error())
			}
			id := ""
			for _, v := range c13Entries(doc) {
				if v.Key == op.Key && v.Latest {
					id = v.ID
				}
			}
			if id == "" {
				return last
			}
			last = s3x.Do(h, &s3x.Req{Method: "DELETE", Path: "/" + op.B + "/" + op.Key, Query: s3x.Q("versionId", id)})
			if last.Panic != "" || last.Status != 204 {
				return last
			}
		}
		return last
	case "mdel":
		x := "<Delete><Object><Key>" + xmlEsc(op.Key) + "</Key></Object></Delete>"
		return s3x.Do(h, &s3x.Req{Method: "POST", Path: "/" + op.B, Query: s3x.Q("delete", s3x.Bare), Body: []byte(x)})
	case "copy-to": // destination is the hostile key
		return s3x.Do(h, &s3x.Req{Method: "PUT", Path: "/" + op.B + "/" + op.Key, Header: s3x.H("X-Amz-Copy-Source", "/bk0/a", "X-Amz-Meta-Init", "set by the copy request", "X-Amz-Meta-Copy", "c", "Content-Type", "text/x-copy")})
	case "copy-from": // source is the hostile key, destination a fresh normal key
		return s3x.Do(h, &s3x.Req{Method: "PUT", Path: "/" + op.B + "/copied", Header: s3x.H("X-Amz-Copy-Source", "/"+op.B+"/"+s3x.EscapeQuery(op.Key), "X-Amz-Meta-Init", "set by the copy request", "X-Amz-Meta-Copy", "c", "Content-Type", "text/x-copy")})
	case "complete":
		r := s3x.Do(h, &s3x.Req{Method: "POST", Path: "/" + op.B + "/" + op.Key, Query: s3x.Q("uploads", s3x.Bare)})
		var d s3x.InitiateDoc
		if r.Status != 200 || r.XML(&d) != nil {
			return r
		}
		r = s3x.Do(h, &s3x.Req{Method: "PUT", Path: "/" + op.B + "/" + op.Key, Query: s3x.Q("partNumber", "1", "uploadId", d.UploadId), Body: body})
		if r.Status != 200 {
			return r
		}
		x := `<CompleteMultipartUpload><Part><PartNumber>1</PartNumber><ETag>` + xmlEsc(r.Header.Get("ETag")) + `</ETag></Part></CompleteMultipartUpload>`
		return s3x.Do(h, &s3x.Req{Method: "POST", Path: "/" + op.B + "/" + op.Key, Query: s3x.Q("uploadId", d.UploadId), Body: []byte(x)})
	case "post":
		return prog.NewRunner(st).FormPost(op.B, op.Key, body)
	case "list-prefix":
		return s3x.Do(h, &s3x.Req{Method: "GET", Path: "/" + op.B, Query: s3x.Q("prefix", op.Key, "delimiter", "/")})
	case "api-put":
		_, err := st.Backend.PutObject(op.B, op.Key, map[string]string{"X-Amz-Meta-Init": "hostile"}, strings.NewReader(op.Body), int64(len(op.Body)))
		return apiResp(err)
	case "api-get":
		o, err := st.Backend.GetObject(op.B, op.Key, nil)
		if o != nil {
			o.Contents.Close()
		}
		return apiResp(err)
	case "api-del":
		_, err := st.Backend.DeleteObject(op.B, op.Key)
		return apiResp(err)
	case "reopen":
		// a new backend instance over the same storage (persistent configurations only)
		if err := st.Reopen(); err != nil {
			return &s3x.Resp{Status: 500, Body: []byte("reopen: " + err.Error())}
		}
		return &s3x.Resp{Status: 200}
	case "api-mkbucket":
		return apiResp(st.Backend.CreateBucket(op.B))
	case "api-rmbucket":
		return apiResp(st.Backend.DeleteBucket(op.B))
	case "api-force-rmbucket":
		if f, ok := st.Backend.(interface{ ForceDeleteBucket(name string) error }); ok {
			return apiResp(f.ForceDeleteBucket(op.B))
		}
		return &s3x.Resp{Status: 501, Body: []byte("the backend has no ForceDeleteBucket")}
	case "mkbucket":
		return s3x.Do(h, &s3x.Req{Method: "PUT", Path: "/" + op.B})
	case "rmbucket":
		return s3x.Do(h, &s3x.Req{Method: "DELETE", Path: "/" + op.B})
	}
	return &s3x.Resp{Status: 599, Body: []byte("harness: unknown op")}
}

func apiResp(err error) *s3x.Resp {
	if err != nil {
		return &s3x.Resp{Status: 500, Body: []byte(err.Error())}
	}
	return &s3x.Resp{Status: 200}
}

// step executes one op between two snapshots and applies the framing oracle.
func (e *c10Env) step(op c10Op) (ds []disc, accepted bool) {
	fail := func(kind, f string, a ...interface{}) {
		ds = append(ds, disc{Kind: kind, Detail: fmt.Sprintf("backend=%s op=%s bucket=%s key=%q: ", e.st.Kind, op.K, op.B, trunc([]byte(op.Key), 80)) + fmt.Sprintf(f, a...)})
	}
	before := e.snap()
	var resp *s3x.Resp
	func() {
		defer debug.SetPanicOnFault(debug.SetPanicOnFault(true))
		defer func() {
			if p := recover(); p != nil {
				resp = &s3x.Resp{Panic: fmt.Sprint(p), PanicSite: "backend API"}
			}
		}()
		resp = e.exec(op)
	}()
	if e.st.GuardTripped() {
		fail("runaway-recursion", "the backend's directory walk recursed without bound (a fatal stack overflow in production)")
	}
	if resp.Panic != "" {
		fail("panic", "%s at %s", resp.Panic, resp.PanicSite)
	}
	accepted = resp.Panic == "" && resp.Status >= 200 && resp.Status < 300
	mutating := map[string]bool{"h-put": true, "h-del": true, "put": true, "del": true, "mdel": true, "delver-all": true, "copy-to": true, "copy-from": true, "complete": true, "post": true, "api-put": true, "api-del": true, "mkbucket": true, "rmbucket": true, "api-mkbucket": true, "api-rmbucket": true, "api-force-rmbucket": true}[op.K]
	after := e.snap()
	if e.st.GuardTripped() {
		fail("runaway-recursion", "after the operation, listing the store recursed without bound (a fatal stack overflow in production)")
	}
	addrKey := op.Key
	if !strings.HasPrefix(op.K, "api-") && op.K != "mdel" && op.K != "post" {
		addrKey = strings.Trim(op.Key, "/") // the router trims slashes around the path (C16)
	}
	if op.K == "copy-from" {
		addrKey = "copied"
	}
	if op.K == "mdel" {
		addrKey = c10XMLKey(op.Key) // what the request document can carry
	}
	isFs := e.st.Kind.IsFs()
	allowed := func(b, k string) bool {
		if b != op.B || !mutating {
			return false // in particular: an op addressed to any other bucket name (".", "BK0", …) must not touch bk0 / bk1
		}
		if k == addrKey {
			return true
		}
		return isFs && c10Alias(k, addrKey)
	}
	if before.Buckets != after.Buckets && op.K != "mkbucket" && op.K != "rmbucket" && op.K != "api-mkbucket" && op.K != "api-rmbucket" && op.K != "api-force-rmbucket" {
		fail("bucket-set-changed", "ListBuckets before %s after %s", before.Buckets, after.Buckets)
	}
	for id, obs := range before.Keys {
		parts := strings.SplitN(id, "\x00", 2)
		// the read goes through the router, which trims slashes around the path (C16): the
		// observation of "d/" is the observation of "d"
		if after.Keys[id] != obs && !allowed(parts[0], parts[1]) && !allowed(parts[0], strings.Trim(parts[1], "/")) {
			fail("other-key-changed", "%s/%s read %q before and %q after", parts[0], parts[1], obs, after.Keys[id])
		}
	}
	for _, b := range e.buckets {
		if la := after.Lists[b]; la != "" && before.Lists[b] == "" {
			fail("bucket-unlistable", "bucket %s cannot be listed any more: %s", b, la)
			continue
		}
		mb, ma := before.Entries[b], after.Entries[b]
		for k, v := range mb {
			if ma[k] != v && !allowed(b, k) {
				kind := "other-listing-entry-changed"
				if b != op.B {
					kind = "other-bucket-listing-changed"
				}
				fail(kind, "listing entry %q of %s: %q -> %q", k, b, v, ma[k])
			}
		}
		for k, v := range ma {
			if _, ok := mb[k]; !ok && !allowed(b, k) {
				fail("unaddressed-key-appeared", "key %q appeared in the listing of %s (%s) although %s/%q was addressed", k, b, v, op.B, addrKey)
			}
		}
	}
	for _, b := range e.buckets {
		gb, ga := before.Groups[b], after.Groups[b]
		if gb == nil || ga == nil {
			continue
		}
		for g := range ga {
			if !gb[g] && !(b == op.B && mutating && strings.HasPrefix(addrKey+"/", g)) {
				fail("unaddressed-prefix-appeared", "the '/'-delimited listing of %s gained the common prefix %q although %s/%q was addressed", b, g, op.B, addrKey)
			}
		}
		for g := range gb {
			if !ga[g] && !(b == op.B && mutating && strings.HasPrefix(addrKey+"/", g)) && !(b == op.B && (op.K == "rmbucket" || op.K == "api-rmbucket" || op.K == "api-force-rmbucket")) {
				fail("unaddressed-prefix-vanished", "the '/'-delimited listing of %s lost the common prefix %q although %s/%q was addressed", b, g, op.B, addrKey)
			} else if !ga[g] && !e.st.Kind.IsFs() {
				// the addressed key lay below the prefix: the prefix may go with it, but not while the
				// (flat) listing still shows other keys below it (key-value backends: keys are opaque)
				for k := range after.Entries[b] {
					if k != addrKey && strings.HasPrefix(k, g) && len(k) > len(g) {
						fail("sibling-unlistable", "the '/'-delimited listing of %s lost the common prefix %q while %q is still stored below it; %s/%q was addressed", b, g, k, op.B, addrKey)
						break
					}
				}
			}
		}
	}
	if before.Disk != nil {
		ok := func(rel string) bool {
			if !mutating {
				return false
			}
			var roots []string
			if e.st.Kind.IsSingle() {
				roots = []string{"bucket/", "meta/" + op.B + "/", "meta/"}
			} else {
				roots = []string{"root/buckets/" + op.B + "/", "root/metadata/" + op.B + "/", "root/metadata/"}
			}
			if op.K == "mkbucket" || op.K == "rmbucket" || op.K == "api-mkbucket" {
				roots = append(roots, "root/buckets/")
			}
			for _, r := range roots {
				if strings.HasPrefix(rel, r) || rel == r {
					// sibling buckets must not be touched
					if !e.st.Kind.IsSingle() && strings.HasPrefix(rel, "root/buckets/") && !strings.HasPrefix(rel, "root/buckets/"+op.B+"/") && rel != "root/buckets/"+op.B+"/" && op.K != "mkbucket" && op.K != "rmbucket" {
						return false
					}
					if !e.st.Kind.IsSingle() && strings.HasPrefix(rel, "root/metadata/") && !strings.HasPrefix(rel, "root/metadata/"+op.B+"/") && rel != "root/metadata/"+op.B+"/" {
						return false
					}
					return true
				}
			}
			return false
		}
		for p, v := range before.Disk {
			if after.Disk[p] != v && !ok(p) && !strings.Contains(p, ".modtime-resolution") {
				fail("disk-outside-bucket-changed", "on-disk %q: %q -> %q", p, v, after.Disk[p])
			}
		}
		for p, v := range after.Disk {
			if _, had := before.Disk[p]; !had && !ok(p) && !strings.Contains(p, ".modtime-resolution") {
				fail("disk-outside-bucket-created", "on-disk %q (%s) created outside the addressed bucket's directories", p, v)
			}
		}
	}
	if accepted && (op.K == "put" || op.K == "api-put" || op.K == "copy-to" || op.K == "complete" || op.K == "post") {
		if _, ok := e.known[op.B]; ok && addrKey != "" {
			e.known[op.B][addrKey] = true
		}
	}
	if accepted && op.K == "copy-from" {
		e.known[op.B]["copied"] = true
	}
	return
}

func c10Exec(cs c10Case) (ds []disc, accepted int) {
	e := newC10Env(cs.Backend, cs.HostStyle)
	defer e.st.Close()
	if cs.Versioned {
		for _, b := range e.buckets {
			if r := s3x.Do(e.st.Handler, &s3x.Req{Method: "PUT", Path: "/" + b, Query: s3x.Q("versioning", s3x.Bare), Body: []byte(`<VersioningConfiguration><Status>Enabled</Status></VersioningConfiguration>`)}); r.Status != 200 {
				panic("harness: enable versioning: " + r.String())
			}
		}
	}
	for i, op := range cs.Ops {
		sd, acc := e.step(op)
		if acc {
			accepted++
		}
		if len(sd) > 0 {
			for j := range sd {
				sd[j].Detail = fmt.Sprintf("step %d: %s", i, sd[j].Detail)
			}
			return sd, accepted
		}
	}
	return nil, accepted
}

// c10Distinct: byte-distinct keys are distinct objects on the key-value backends.
func c10Distinct(k backends.Kind, k1, k2 string) []disc {
	e := newC10Env(k)
	defer e.st.Close()
	b1, b2 := []byte("first:"+k1), []byte("second:"+k2)
	if r := put(e.st, "bk0", k1, b1); r.Status != 200 {
		return dsc("distinct-put-refused", "backend=%s put %q: %s", k, k1, r)
	}
	if r := put(e.st, "bk0", k2, b2); r.Status != 200 {
		return dsc("distinct-put-refused", "backend=%s put %q: %s", k, k2, r)
	}
	g1, g2 := get(e.st, "bk0", k1), get(e.st, "bk0", k2)
	if string(g1.Body) != string(b1) || string(g2.Body) != string(b2) {
		return dsc("distinct-keys-collide", "backend=%s keys %q and %q are different byte strings but read %q and %q", k, k1, k2, trunc(g1.Body, 40), trunc(g2.Body, 40))
	}
	del(e.st, "bk0", k1)
	if g := get(e.st, "bk0", k2); g.Status != 200 || string(g.Body) != string(b2) {
		return dsc("distinct-keys-collide", "backend=%s deleting %q affected %q: %s", k, k1, k2, g)
	}
	return nil
}

// c10Internal: a backend's bookkeeping storage is neither visible nor mutable.
func c10Internal(k backends.Kind) []disc {
	e := newC10Env(k)
	defer e.st.Close()
	var ds []disc
	for _, name := range []string{"_meta", "_META", "_Meta"} {
		for _, probe := range []struct {
			m, p string
			body []byte
		}{{"GET", "/" + name, nil}, {"HEAD", "/" + name, nil}, {"GET", "/" + name + "/bucket/bk0", nil}, {"PUT", "/" + name + "/k", []byte("x")}, {"DELETE", "/" + name + "/bucket/bk0", nil},
			{"DELETE", "/" + name, nil}, {"GET", "/" + name + "?versioning", nil}, {"POST", "/" + name + "/k?uploads", nil}} {
			before := e.snap()
			rq := &s3x.Req{Method: probe.m, RawTarget: probe.p, Body: probe.body}
			r := s3x.Do(e.st.Handler, rq)
			after := e.snap()
			if r.Panic != "" {
				ds = append(ds, dsc("panic", "backend=%s %s %s: %s", k, probe.m, probe.p, r.Panic)...)
				continue
			}
			if r.Status >= 200 && r.Status < 300 {
				ds = append(ds, dsc("internal-storage-addressable", "backend=%s %s %s answered %d: the backend's bookkeeping storage is reachable as a bucket/object", k, probe.m, probe.p, r.Status)...)
			}
			if mustJSON(before.Keys) != mustJSON(after.Keys) || mustJSON(before.Lists) != mustJSON(after.Lists) || mustJSON(before.Entries) != mustJSON(after.Entries) || before.Buckets != after.Buckets {
				ds = append(ds, dsc("internal-storage-mutated", "backend=%s %s %s changed the store", k, probe.m, probe.p)...)
			}
		}
		if strings.Contains(e.snap().Buckets, name) {
			ds = append(ds, dsc("internal-storage-listed", "backend=%s ListBuckets shows %s", k, name)...)
		}
	}
	// ListBuckets shows exactly the created buckets, and every one of them is still usable
	after := e.snap()
	if want := fmt.Sprintf("200 %v", e.buckets); after.Buckets != want {
		ds = append(ds, dsc("bucket-set-changed", "backend=%s ListBuckets %s want %s", k, after.Buckets, want)...)
	}
	return ds
}

// c10PrefixBuckets: buckets whose names are string prefixes of one another ("bk0", "bk00", "bk0-x", "bk0.yyy")
// are as independent as any others: deleting one (empty, or with the force-delete header) leaves the
// objects and metadata of the others alone.
func c10PrefixBuckets(k backends.Kind, force bool) (ds []disc) {
	st := backends.Must(k, backends.Options{})
	defer st.Close()
	names := []string{"bk0", "bk00", "bk0-x", "bk0.yyy"}
	for _, b := range names {
		if err := ensureBucket(st, b); err != nil {
			panic(err)
		}
	}
	for _, b := range names[1:] {
		for _, key := range []string{"a", "d/x"} {
			if r := put(st, b, key, []byte("object "+b+"/"+key), "X-Amz-Meta-Owner", b, "Content-Type", "text/x-"+b); r.Status != 200 {
				panic("harness: " + r.String())
			}
		}
	}
	rq := &s3x.Req{Method: "DELETE", Path: "/bk0"}
	if force {
		put(st, "bk0", "a", []byte("to be force-deleted"))
		put(st, "bk0", "d/x", []byte("to be force-deleted"))
		rq.Header = s3x.H("X-Minio-Force-Delete", "true")
	}
	// (the force variant is a Minio extension outside the listed properties: the server removes the
	// bucket and then answers NoSuchBucket from the ordinary delete that follows; only its effect on
	// the other buckets is judged here)
	if r := s3x.Do(st.Handler, rq); r.Panic != "" || (!force && r.Status != 204) {
		return dsc("bucket-delete-failed", "backend=%s force=%v: DELETE /bk0 answered %s", k, force, r)
	}
	for _, b := range names[1:] {
		for _, key := range []string{"a", "d/x"} {
			g := get(st, b, key)
			if g.Status != 200 || string(g.Body) != "object "+b+"/"+key || g.Header.Get("X-Amz-Meta-Owner") != b || g.Header.Get("Content-Type") != "text/x-"+b {
				ds = append(ds, dsc("other-bucket-changed", "backend=%s force=%v: after deleting bucket bk0, GET %s/%s answers %d %q (X-Amz-Meta-Owner %q, Content-Type %q)", k, force, b, key, g.Status, trunc(g.Body, 40), g.Header.Get("X-Amz-Meta-Owner"), g.Header.Get("Content-Type"))...)
			}
		}
		doc, r := listDoc(st, b)
		if doc == nil || len(doc.Contents) != 2 {
			ds = append(ds, dsc("other-bucket-listing-changed", "backend=%s force=%v: after deleting bucket bk0, listing %s answers %s", k, force, b, r)...)
		}
	}
	var bd s3x.BucketsDoc
	lb := s3x.Do(st.Handler, &s3x.Req{Method: "GET", Path: "/"})
	lb.XML(&bd)
	got := bd.Names()
	sort.Strings(got)
	if fmt.Sprint(got) != "[bk0-x bk0.yyy bk00]" {
		ds = append(ds, dsc("bucket-set-changed", "backend=%s force=%v: after deleting bucket bk0, ListBuckets shows %v", k, force, got)...)
	}
	return ds
}

// c10LostMetadata: the multi-bucket fs backend on a real directory whose metadata directory was lost
// (what a crash between the object file and its metadata file leaves for one key, here for all): the
// backend re-derives sizes and ETags from the object files - each from the file of the addressed
// (bucket, key), also when the key's first segment spells another bucket's name.
func c10LostMetadata(k backends.Kind, first string) (ds []disc) {
	e := newC10Env(k)
	defer e.st.Close()
	mine, theirs := []byte("the object bk0/bk1/a, which only looks like a path into bk1"), []byte(c10Init["bk1"]["a"])
	if r := put(e.st, "bk0", "bk1/a", mine); r.Status != 200 {
		return dsc("harness", "backend=%s: put bk0/bk1/a: %s", k, r)
	}
	if err := os.RemoveAll(filepath.Join(e.st.Dir(), "root", "metadata")); err != nil {
		return dsc("harness", "backend=%s: %v", k, err)
	}
	os.MkdirAll(filepath.Join(e.st.Dir(), "root", "metadata"), 0700)
	if err := e.st.Reopen(); err != nil {
		return dsc("reopen-failed", "backend=%s: the store does not open without its metadata files: %v", k, err)
	}
	fail := func(kind, f string, a ...interface{}) {
		ds = append(ds, dsc(kind, "backend=%s metadata lost, first request %s: "+f, append([]interface{}{k, first}, a...)...)...)
	}
	list := func(q ...string) {
		doc, r := listDoc(e.st, "bk0", q...)
		if doc == nil {
			fail("bucket-unlistable", "listing bk0 %v answers %s", q, r)
			return
		}
		for _, c := range doc.Contents {
			if c.Key == "bk1/a" && (c.ETag != etagOf(mine) || c.Size != int64(len(mine))) {
				fail("read-outside-bucket", "listing bk0 %v shows bk1/a with size %d ETag %s; the object has %d bytes, ETag %s (bk1/a in bucket bk1 has %d bytes, ETag %s)", q, c.Size, c.ETag, len(mine), etagOf(mine), len(theirs), etagOf(theirs))
			}
		}
	}
	switch first {
	case "list-delimited":
		list("prefix", "bk1/", "delimiter", "/")
	case "list-flat":
		list()
	case "head":
		s3x.Do(e.st.Handler, &s3x.Req{Method: "HEAD", Path: "/bk0/bk1/a"})
	}
	list("prefix", "bk1/", "delimiter", "/")
	list()
	if g := get(e.st, "bk0", "bk1/a"); g.Status != 200 || !bytes.Equal(g.Body, mine) || g.Header.Get("ETag") != etagOf(mine) {
		fail("read-outside-bucket", "GET bk0/bk1/a answers %d, %d bytes, ETag %s; the object has %d bytes, ETag %s", g.Status, len(g.Body), g.Header.Get("ETag"), len(mine), etagOf(mine))
	}
	if g := get(e.st, "bk1", "a"); g.Status != 200 || !bytes.Equal(g.Body, theirs) || g.Header.Get("ETag") != etagOf(theirs) {
		fail("other-key-changed", "GET bk1/a answers %d, %d bytes, ETag %s", g.Status, len(g.Body), g.Header.Get("ETag"))
	}
	return ds
}

func c10Replay(check string, raw json.RawMessage) ([]disc, error) {
	if check == "uploads" {
		var cs c10UpCase
		if err := json.Unmarshal(raw, &cs); err != nil {
			return nil, err
		}
		ds, _ := c10UploadsExec(cs)
		return ds, nil
	}
	var cs c10Case
	if err := json.Unmarshal(raw, &cs); err != nil {
		return nil, err
	}
	switch check {
	case "distinct":
		return c10Distinct(cs.Backend, cs.Ops[0].Key, cs.Ops[1].Key), nil
	case "internal":
		return c10Internal(cs.Backend), nil
	case "lost-metadata":
		return c10LostMetadata(cs.Backend, cs.Ops[0].Key), nil
	case "prefix-buckets":
		return c10PrefixBuckets(cs.Backend, len(cs.Ops) > 0 && cs.Ops[0].K == "force"), nil
	}
	ds, _ := c10Exec(cs)
	return ds, nil
}

func TestC10(t *testing.T) {
	runProp(t, propDef{
		ID:    "C10",
		Level: "exploration",
		Rule: "cases = (backend, operation sequence with hostile keys); enumeration: every key of a hostile pool (dot segments, bucket-escaping paths, backslashes, percent-encoded bytes, 255/256-byte segments, internal names, path-prefixes of live keys, look-alikes) " +
			"x every op kind {put, get, head, delete, multi-delete, copy to, copy from, multipart complete, form POST, list with prefix, Backend put/get/delete} x both buckets x every backend; random: rapid programs mixing hostile and normal keys; " +
			"plus hostile bucket names (over HTTP, and names only the Go API can carry: with a slash, climbing) x object ops and bucket create / delete / forced delete through the Backend API; sibling keys spelled like temporary or backup files; keys spelled like a backend's scratch files across a new backend instance (persistent kinds); " +
			"oracle = full-store snapshot (ListBuckets, Backend.ListBucket of every bucket with and without delimiter, GET of every known key, on-disk tree with sentinel files for real directories) before and after each op: only the addressed (bucket,key) may differ; " +
			"plus byte-distinct look-alike pairs on mem/bolt and probes of the backends' internal names; " +
			"plus multipart sequences (initiate, upload part, abort, complete, list parts over two buckets x two keys) in which requests quote the upload ID issued for another (bucket, key), against a model of every pending upload, the upload listings and the objects; " +
			"non-trivial = an op with a hostile key that the backend accepted, or a mutating op while both buckets hold objects, or a multipart request quoting the ID of a pending upload of another (bucket, key); distinct by (backend, sequence)",
		Replay: c10Replay,
		Run:    c10Run,
	})
}

var c10OpKinds = []string{"put", "get", "head", "del", "mdel", "copy-to", "copy-from", "complete", "post", "list-prefix", "api-put", "api-get", "api-del"}

func c10Run(t *testing.T, c *evid.Collector) {
	kinds := kindsFromEnv(backends.All)
	record := func(check string, cs c10Case, ds []disc, accepted int, src string) bool {
		hostile := false
		for _, op := range cs.Ops {
			for _, h := range c10Hostile {
				if op.Key == h {
					hostile = true
				}
			}
		}
		nt := (hostile && accepted > 0) || (!hostile && accepted > 0 && !cs.Backend.IsSingle())
		labels := []string{"backend:" + string(cs.Backend), "src:" + src, "check:" + check}
		if hostile && accepted > 0 {
			labels = append(labels, "hostile-key-accepted")
		}
		if hostile && accepted == 0 {
			labels = append(labels, "hostile-key-refused")
		}
		c.Case(evid.FP(check, mustJSON(cs)), nt, func() interface{} { return cs }, labels...)
		return report(c, check, ds, cs)
	}
	// ---- enumeration: hostile pool x op kinds x buckets x backends
	n := 0
	for _, k := range kinds {
		bs := []string{"bk0", "bk1"}
		if k.IsSingle() {
			bs = []string{"bk0"}
		}
		for _, key := range c10Hostile {
			if strings.ContainsAny(key, "\x00\n") && k.IsDir() {
				// NUL cannot be part of a path; such keys are refused by the OS before any effect
			}
			for _, opk := range c10OpKinds {
				for _, b := range bs {
					n++
					if n%evid.Shards() != evid.Shard() {
						continue
					}
					cs := c10Case{Backend: k, Ops: []c10Op{{K: opk, B: b, Key: key, Body: "hostile body"}}}
					// follow a write by a delete of the same key: the delete must not reach further than the write
					if opk == "put" || opk == "api-put" {
						cs.Ops = append(cs.Ops, c10Op{K: "del", B: b, Key: key})
					}
					ds, acc := c10Exec(cs)
					record("framing", cs, ds, acc, "enumerated")
				}
			}
		}
	}
	// ---- the same hostile keys addressed virtual-host style (the key alone is the request path)
	for _, k := range kindsFromEnv([]backends.Kind{backends.Mem, backends.MultiMem}) {
		ok := false
		for _, kk := range kinds {
			ok = ok || kk == k
		}
		if !ok {
			continue
		}
		for _, key := range c10Hostile {
			if key == "" || strings.HasPrefix(key, "/") {
				continue
			}
			for _, opk := range []string{"h-put", "h-get", "h-head", "h-del"} {
				for _, b := range []string{"bk0", "bk1"} {
					n++
					if n%evid.Shards() != evid.Shard() {
						continue
					}
					cs := c10Case{Backend: k, HostStyle: true, Ops: []c10Op{{K: opk, B: b, Key: key, Body: "hostile body"}}}
					if opk == "h-put" {
						cs.Ops = append(cs.Ops, c10Op{K: "h-del", B: b, Key: key})
					}
					ds, acc := c10Exec(cs)
					record("framing", cs, ds, acc, "host-style")
				}
			}
		}
	}
	// ---- versioned buckets (memory backend): a delete leaves a marker and a write keeps what was there;
	// neither reaches the keys beside the addressed one - in particular not the ones that share its prefix
	for _, k := range kinds {
		if k != backends.Mem {
			continue
		}
		for _, key := range []string{"a", "d/x", "d/y", "d", "d/", "d/x/y", "a/b", "d/w", "d/x0", "c/first", "z", "new", "a//b", "d/./x", "../bk1/a", "é"} {
			for _, opk := range []string{"del", "mdel", "put", "copy-to", "post", "complete"} {
				for _, b := range []string{"bk0", "bk1"} {
					n++
					if n%evid.Shards() != evid.Shard() {
						continue
					}
					cs := c10Case{Backend: k, Versioned: true, Ops: []c10Op{{K: opk, B: b, Key: key, Body: "in a versioned bucket"}}}
					if opk == "put" {
						cs.Ops = append(cs.Ops, c10Op{K: "del", B: b, Key: key}, c10Op{K: "del", B: b, Key: key})
					}
					if opk == "del" {
						// ... and the key's whole history removed version by version afterwards
						cs.Ops = append([]c10Op{{K: "put", B: b, Key: key, Body: "a second version"}}, cs.Ops...)
						cs.Ops = append(cs.Ops, c10Op{K: "delver-all", B: b, Key: key}, c10Op{K: "put", B: b, Key: key, Body: "stored again"}, c10Op{K: "delver-all", B: b, Key: key})
					}
					ds, acc := c10Exec(cs)
					record("framing", cs, ds, acc, "versioned")
				}
			}
		}
	}
	// ---- sibling keys: a key spelled like another key plus the kind of suffix or prefix programs use for
	// their own temporary, backup or bookkeeping files is an object of its own; no operation on the
	// plain key may touch it
	for _, k := range kinds {
		for _, base := range []string{"a", "d/x"} {
			dir, name := "", base
			if i := strings.LastIndexByte(base, '/'); i >= 0 {
				dir, name = base[:i+1], base[i+1:]
			}
			for _, sib := range []string{base + ".tmp", base + "~", base + ".bak", base + ".part", base + ".lock", base + ".meta", base + ".json", base + ".new", base + "-", base + ".", dir + "." + name + ".tmp", dir + "." + name + ".swp", dir + "tmp-" + name} {
				for _, opk := range []string{"put", "del", "mdel", "copy-to", "complete", "post", "api-put", "api-del"} {
					n++
					if n%evid.Shards() != evid.Shard() {
						continue
					}
					cs := c10Case{Backend: k, Ops: []c10Op{{K: "put", B: "bk0", Key: sib, Body: "the sibling object"}, {K: opk, B: "bk0", Key: base, Body: "addressed to the plain key"}}}
					ds, acc := c10Exec(cs)
					record("framing", cs, ds, acc, "sibling-keys")
				}
			}
		}
	}
	// ---- a new backend instance over the same storage tidies up nothing that is an object: keys
	// spelled like the files backends make for themselves survive a restart followed by a read of
	// another key
	for _, k := range kinds {
		persistent := false
		for _, pk := range backends.Persistent {
			persistent = persistent || pk == k
		}
		if !persistent {
			continue
		}
		for _, victim := range []string{".modtime-resolution-notes.txt", ".modtime-resolution-1", ".gofakes3-modtime-resolution", ".gofakes3-put-123", ".upload-123", "upload-123", "d/.modtime-resolution-x", ".tmp", "tmp-1", "a.lock"} {
			n++
			if n%evid.Shards() != evid.Shard() {
				continue
			}
			cs := c10Case{Backend: k, Ops: []c10Op{{K: "put", B: "bk0", Key: victim, Body: "an object, not a leftover"}, {K: "reopen", B: "bk0"}, {K: "get", B: "bk0", Key: "a"}, {K: "put", B: "bk0", Key: "new", Body: "n"}, {K: "reopen", B: "bk0"}}}
			ds, acc := c10Exec(cs)
			record("framing", cs, ds, acc, "restart-keeps-internal-looking-keys")
		}
	}
	// ---- hostile bucket names: nothing addressed to them may touch bk0 / bk1
	for _, k := range kinds {
		for _, b := range c10HostileBuckets {
			for _, opk := range []string{"put", "get", "head", "del", "mdel", "copy-to", "list-prefix", "api-put", "api-get", "api-del", "rmbucket", "mkbucket", "post", "complete", "api-rmbucket", "api-force-rmbucket"} {
				hkeys := []string{"a", "bk0/a"}
				if evid.Thorough() {
					hkeys = []string{"a", "x", "bk0/a", "d/x"}
				}
				for _, key := range hkeys {
					n++
					if n%evid.Shards() != evid.Shard() {
						continue
					}
					if (opk == "rmbucket" || opk == "mkbucket" || opk == "api-rmbucket" || opk == "api-force-rmbucket") && key != "a" {
						continue
					}
					cs := c10Case{Backend: k, Ops: []c10Op{{K: opk, B: b, Key: key, Body: "hostile bucket"}}}
					ds, acc := c10Exec(cs)
					record("framing", cs, ds, acc, "hostile-buckets")
				}
			}
		}
	}
	// ---- bucket names only the Go Backend API can carry (a slash, a climbing path): creating or
	// deleting them must not reach into bk0 / bk1 or beside the storage root
	for _, k := range kinds {
		for _, b := range []string{"bk0/sub", "bk0/d", "bk0/d/x", "../buckets2", "../buckets3", "../buckets2x/inner", "../../root2", "bk0/../bk1", "./bk0", "bk0/", "/bk0", "../metadata/bk0", "a/b/c"} {
			for _, opk := range []string{"api-mkbucket", "api-rmbucket", "api-force-rmbucket", "api-put", "api-del"} {
				n++
				if n%evid.Shards() != evid.Shard() {
					continue
				}
				cs := c10Case{Backend: k, Ops: []c10Op{{K: opk, B: b, Key: "a", Body: "bucket name only the API can carry"}}}
				ds, acc := c10Exec(cs)
				record("framing", cs, ds, acc, "api-bucket-names")
			}
		}
	}
	if evid.Shard() == 0 {
		for _, k := range kinds {
			if k != backends.MultiDir {
				continue
			}
			for _, first := range []string{"list-delimited", "list-flat", "head"} {
				cs := c10Case{Backend: k, Ops: []c10Op{{K: "lost-metadata", B: "bk0", Key: first}}}
				record("lost-metadata", cs, c10LostMetadata(k, first), 1, "fixed")
			}
		}
		for _, k := range kinds {
			if k.IsSingle() {
				continue
			}
			for _, force := range []bool{false, true} {
				cs := c10Case{Backend: k}
				if force {
					cs.Ops = []c10Op{{K: "force", B: "bk0"}}
				}
				record("prefix-buckets", cs, c10PrefixBuckets(k, force), 1, "fixed")
			}
		}
		for _, k := range kinds {
			ds := c10Internal(k)
			record("internal", c10Case{Backend: k}, ds, 1, "internal-names")
		}
		pairs := [][2]string{{"A", "a"}, {"é", "é"}, {"a/b", "a//b"}, {"a/b", "a/./b"}, {"a b", "a+b"}, {"a%2Fb", "a/b"}, {"a", "a "}, {"k", "K"}, {"a/b", "a\\b"}, {"x", "x\x00"}, {"../bk1/a", "a"}, {"d/../a", "a"}}
		for _, k := range kindsFromEnv(backends.KV) {
			for _, p := range pairs {
				ds := c10Distinct(k, p[0], p[1])
				record("distinct", c10Case{Backend: k, Ops: []c10Op{{K: "put", B: "bk0", Key: p[0]}, {K: "put", B: "bk0", Key: p[1]}}}, ds, 2, "look-alike-pairs")
			}
		}
	}
	// ---- upload IDs quoted to another (bucket, key)
	c10UploadsRun(t, c, kinds)
	c.Set("exhaustive_scope", fmt.Sprintf("%d hostile keys x %d op kinds x buckets x %d backends: complete (split over shards)", len(c10Hostile), len(c10OpKinds), len(kinds)))
	c.Exhaustive(false)
	// ---- random programs
	rapidRun(t, "random", evid.Scale(250, 6000), func(rt *rapid.T) {
		k := rapid.SampledFrom(kinds).Draw(rt, "backend")
		bs := []string{"bk0", "bk1"}
		if k.IsSingle() {
			bs = []string{"bk0"}
		}
		cs := c10Case{Backend: k}
		nops := rapid.IntRange(2, 10).Draw(rt, "nops")
		for i := 0; i < nops; i++ {
			key := rapid.SampledFrom(c10Normal).Draw(rt, "nkey")
			if rapid.IntRange(0, 2).Draw(rt, "hostile") > 0 {
				key = rapid.SampledFrom(c10Hostile).Draw(rt, "hkey")
			}
			op := c10Op{K: rapid.SampledFrom(c10OpKinds).Draw(rt, "kind"), B: rapid.SampledFrom(bs).Draw(rt, "b"), Key: key, Body: fmt.Sprintf("body-%d", i)}
			cs.Ops = append(cs.Ops, op)
		}
		ds, acc := c10Exec(cs)
		if record("framing", cs, ds, acc, "random") {
			rt.Fatalf("C10 violated: %v", ds)
		}
	})
}

// c10XMLKey is the key a multi-delete document built with xmlEsc carries: XML 1.0 cannot
// express most control characters, xmlEsc sends '?' in their place.
func c10XMLKey(k string) string {
	var b strings.Builder
	for _, r := range k {
		if (r < 0x20 && r != '\t' && r != '\n' && r != '\r') || r == 0xFFFE || r == 0xFFFF {
			b.WriteByte('?')
		} else {
			b.WriteRune(r)
		}
	}
	return b.String()
}

//go:build verif

package props

import (
	"encoding/json"
	"fmt"
	"sort"
	"strings"
	"testing"

	"verif/harness/backends"
	"verif/harness/evid"
	"verif/harness/oracle"
	"verif/harness/prog"
	"verif/harness/s3x"

	"pgregory.net/rapid"
)

// C14 — multipart bookkeeping listings are exact and page completely.

var c14Keys = []string{"a", "a/b", "a/c", "d", "a-1", "a.csv", "a b", "d.x", " lead", "\tq", "dé1é2", "dé1é3", "déz"}

type c14Case struct {
	Backend backends.Kind `json:"backend"`
	Ops     []prog.Op     `json:"ops"`
	Prefix  string        `json:"prefix"`
	Delim   string        `json:"delim"`
	// Host: every request names the bucket in the Host header (server with the host base s3.test)
	Host bool `json:"host,omitempty"`
}

// c14Addr re-addresses a path-style request for bk0 virtual-host style when the stack has a host base.
func c14Addr(st *backends.Stack, rq *s3x.Req) *s3x.Req {
	if len(st.Opts.HostBases) > 0 {
		rq.Host = "bk0." + st.Opts.HostBases[0]
		rq.Path = strings.TrimPrefix(rq.Path, "/bk0")
		if rq.Path == "" {
			rq.Path = "/"
		}
	}
	return rq
}

func c14ListUploads(st *backends.Stack, prefix, delim string, max int, km, um string) (*s3x.ListUploadsDoc, *s3x.Resp) {
	q := []string{"uploads", s3x.Bare}
	if prefix != "" {
		q = append(q, "prefix", prefix)
	}
	if delim != "" {
		q = append(q, "delimiter", delim)
	}
	if max > 0 {
		q = append(q, "max-uploads", fmt.Sprint(max))
	}
	if km != "" {
		q = append(q, "key-marker", km)
	}
	if um != "" {
		q = append(q, "upload-id-marker", um)
	}
	r := s3x.Do(st.Handler, c14Addr(st, &s3x.Req{Method: "GET", Path: "/bk0", Query: s3x.Q(q...)}))
	if r.Status != 200 || r.Panic != "" {
		return nil, r
	}
	var d s3x.ListUploadsDoc
	if err := r.XML(&d); err != nil {
		return nil, r
	}
	return &d, r
}

func c14ListParts(st *backends.Stack, u *prog.MUpload, max int, marker string) (*s3x.ListPartsDoc, *s3x.Resp) {
	q := []string{"uploadId", u.ID}
	if max > 0 {
		q = append(q, "max-parts", fmt.Sprint(max))
	}
	if marker != "" {
		q = append(q, "part-number-marker", marker)
	}
	r := s3x.Do(st.Handler, c14Addr(st, &s3x.Req{Method: "GET", Path: "/bk0/" + u.Key, Query: s3x.Q(q...)}))
	if r.Status != 200 || r.Panic != "" {
		return nil, r
	}
	var d s3x.ListPartsDoc
	if err := r.XML(&d); err != nil {
		return nil, r
	}
	return &d, r
}

func respFail(r *s3x.Resp) (string, string) {
	if r.Panic != "" {
		return "panic", fmt.Sprintf("%s at %s", r.Panic, r.PanicSite)
	}
	return "request-failed", r.String()
}

// c14CheckUploads: unpaginated exactness + every page size.
func c14CheckUploads(r *prog.Runner, prefix, delim string) (ds []disc, info map[string]int) {
	info = map[string]int{}
	fail := func(kind, f string, a ...interface{}) {
		ds = append(ds, disc{Kind: kind, Detail: fmt.Sprintf("ListMultipartUploads prefix=%q delim=%q: ", prefix, delim) + fmt.Sprintf(f, a...)})
	}
	pend := r.M.PendingUploads("bk0")
	// expected order: by key, then by initiation
	sort.SliceStable(pend, func(i, j int) bool {
		if pend[i].Key != pend[j].Key {
			return pend[i].Key < pend[j].Key
		}
		return pend[i].Seq < pend[j].Seq
	})
	var keys []string
	for _, u := range pend {
		keys = append(keys, u.Key)
	}
	lst := oracle.List(keys, prefix, delim)
	listed := map[string]bool{}
	for _, k := range lst.Contents {
		listed[k] = true
	}
	var want []string
	for _, u := range pend {
		if listed[u.Key] {
			want = append(want, u.Key+"#"+u.ID)
		}
	}
	info["uploads"] = len(want)
	info["prefixes"] = len(lst.Prefixes)
	doc, resp := c14ListUploads(r.St, prefix, delim, 0, "", "")
	if doc == nil {
		k, d := respFail(resp)
		fail(k, "%s", d)
		return
	}
	var got []string
	for _, u := range doc.Uploads {
		got = append(got, u.Key+"#"+u.UploadId)
	}
	if !eqStrings(got, want) {
		fail("uploads-mismatch", "uploads = %q want %q", got, want)
		return
	}
	if !eqStrings(sortedCopy(doc.Prefixes()), lst.Prefixes) {
		fail("uploads-common-prefixes", "CommonPrefixes = %q want %q", doc.Prefixes(), lst.Prefixes)
		return
	}
	if doc.IsTruncated {
		fail("truncated", "unpaginated listing reports IsTruncated")
	}
	// paged walks
	for max := 1; max <= len(want)+1; max++ {
		var walk []string
		cps := map[string]int{}
		km, um := "", ""
		pages := 0
		for {
			doc, resp := c14ListUploads(r.St, prefix, delim, max, km, um)
			if doc == nil {
				k, d := respFail(resp)
				fail(k, "max-uploads=%d page %d (key-marker=%q upload-id-marker=%q): %s", max, pages, km, um, d)
				return
			}
			pages++
			if len(doc.Uploads) > max {
				fail("page-too-long", "max-uploads=%d page has %d uploads", max, len(doc.Uploads))
			}
			for _, u := range doc.Uploads {
				walk = append(walk, u.Key+"#"+u.UploadId)
			}
			for _, p := range doc.Prefixes() {
				cps[p]++
			}
			if !doc.IsTruncated {
				break
			}
			if doc.NextKeyMarker == "" {
				fail("no-next-markers", "max-uploads=%d: truncated page without NextKeyMarker", max)
				return
			}
			if pages > len(want)+3 {
				fail("no-termination", "max-uploads=%d: walk did not terminate in %d pages", max, pages)
				return
			}
			km, um = doc.NextKeyMarker, doc.NextUploadIdMarker
		}
		if pages >= 2 {
			info["multi-page-upload-walks"]++
		}
		if !eqStrings(walk, want) {
			fail("uploads-walk-mismatch", "max-uploads=%d: walk = %q want %q", max, walk, want)
			return
		}
		var gotCP []string
		for p := range cps {
			gotCP = append(gotCP, p)
		}
		sort.Strings(gotCP)
		if !eqStrings(gotCP, lst.Prefixes) {
			fail("uploads-walk-common-prefixes", "max-uploads=%d: common prefixes over the walk = %q want %q", max, gotCP, lst.Prefixes)
			return
		}
	}
	return
}

func c14CheckParts(r *prog.Runner, u *prog.MUpload) (ds []disc, info map[string]int) {
	info = map[string]int{}
	fail := func(kind, f string, a ...interface{}) {
		ds = append(ds, disc{Kind: kind, Detail: fmt.Sprintf("ListParts upload %s of %s: ", u.ID, u.Key) + fmt.Sprintf(f, a...)})
	}
	var nums []int
	for n := range u.Parts {
		nums = append(nums, n)
	}
	sort.Ints(nums)
	partStr := func(n int) string { return fmt.Sprintf("%d:%d:%s", n, len(u.Parts[n].Body), u.Parts[n].ETag) }
	var want []string
	gap := false
	for i, n := range nums {
		want = append(want, partStr(n))
		if i > 0 && n != nums[i-1]+1 {
			gap = true
		}
	}
	if len(nums) > 0 && nums[0] != 1 {
		gap = true
	}
	if gap {
		info["gaps"] = 1
	}
	info["parts"] = len(want)
	fmtParts := func(ps []s3x.PartEntry) []string {
		var o []string
		for _, p := range ps {
			o = append(o, fmt.Sprintf("%d:%d:%s", p.PartNumber, p.Size, p.ETag))
		}
		return o
	}
	doc, resp := c14ListParts(r.St, u, 0, "")
	if doc == nil {
		k, d := respFail(resp)
		fail(k, "%s", d)
		return
	}
	if got := fmtParts(doc.Parts); !eqStrings(got, want) {
		fail("parts-mismatch", "parts = %q want %q", got, want)
		return
	}
	for max := 1; max <= len(want)+1; max++ {
		var walk []string
		marker := ""
		pages := 0
		for {
			doc, resp := c14ListParts(r.St, u, max, marker)
			if doc == nil {
				k, d := respFail(resp)
				fail(k, "max-parts=%d page %d marker=%q: %s", max, pages, marker, d)
				return
			}
			pages++
			if len(doc.Parts) > max {
				fail("page-too-long", "max-parts=%d page has %d parts", max, len(doc.Parts))
			}
			walk = append(walk, fmtParts(doc.Parts)...)
			if !doc.IsTruncated {
				break
			}
			if pages > len(want)+3 {
				fail("no-termination", "max-parts=%d: walk did not terminate in %d pages", max, pages)
				return
			}
			marker = fmt.Sprint(doc.NextPartNumberMarker)
		}
		if pages >= 2 {
			info["multi-page-part-walks"]++
		}
		if !eqStrings(walk, want) {
			fail("parts-walk-mismatch", "max-parts=%d: walk = %q want %q", max, walk, want)
			return
		}
	}
	// arbitrary numeric markers
	cands := []int{0, 1, 2, 3, 4, 6, 99, 100, 101, 9998, 9999, 10000, 10001, 20000, 1 << 31, 1<<31 + 5}
	for _, n := range nums {
		cands = append(cands, n-1, n, n+1)
	}
	for _, m := range cands {
		if m < 0 {
			continue
		}
		doc, resp := c14ListParts(r.St, u, 0, fmt.Sprint(m))
		if doc == nil {
			k, d := respFail(resp)
			fail(k, "part-number-marker=%d: %s", m, d)
			return
		}
		got := fmtParts(doc.Parts)
		var after, from []string // parts > m, parts >= m
		for _, n := range nums {
			if n > m {
				after = append(after, partStr(n))
			}
			if n >= m {
				from = append(from, partStr(n))
			}
		}
		if !eqStrings(got, after) && !eqStrings(got, from) {
			fail("parts-marker", "part-number-marker=%d returned %q; want the parts after the marker %q (or from it %q)", m, got, after, from)
			return
		}
		if len(after) == 0 && len(from) == 0 && doc.IsTruncated {
			fail("parts-marker-truncated", "part-number-marker=%d beyond the highest part reports IsTruncated", m)
		}
		info["arbitrary-markers"]++
	}
	return
}

func c14Exec(cs c14Case) (ds []disc, info map[string]int) {
	info = map[string]int{}
	var o backends.Options
	if cs.Host {
		o.HostBases = []string{"s3.test"}
	}
	st := backends.Must(cs.Backend, o)
	defer st.Close()
	r := prog.NewRunner(st)
	if cs.Host {
		r.Addr = func(bucket, rest string) (string, string) { return bucket + ".s3.test", "/" + rest }
	}
	if !st.Kind.IsSingle() {
		if d := r.Step(prog.Op{K: "mkbucket", B: "bk0"}); len(d) > 0 {
			return d, info
		}
	}
	for i, op := range cs.Ops {
		if sd := r.Step(op); len(sd) > 0 {
			for j := range sd {
				sd[j].Detail = fmt.Sprintf("history step %d: %s", i, sd[j].Detail)
				sd[j].Kind = "history:" + sd[j].Kind
			}
			return sd, info
		}
	}
	if !r.M.HadUp["bk0"] {
		return nil, info // the statement's precondition: a bucket that has had an upload initiated
	}
	ds, info = c14CheckUploads(r, cs.Prefix, cs.Delim)
	if len(ds) > 0 {
		return
	}
	keysSeen := map[string]bool{}
	for _, u := range r.M.PendingUploads("bk0") {
		keysSeen[u.Key] = true
		pd, pi := c14CheckParts(r, u)
		for k, v := range pi {
			info[k] += v
		}
		ds = append(ds, pd...)
		if len(ds) > 0 {
			return
		}
	}
	info["keys-with-uploads"] = len(keysSeen)
	return
}

func c14Replay(check string, raw json.RawMessage) ([]disc, error) {
	var cs c14Case
	if err := json.Unmarshal(raw, &cs); err != nil {
		return nil, err
	}
	ds, _ := c14Exec(cs)
	return ds, nil
}

func TestC14(t *testing.T) {
	runProp(t, propDef{
		ID:    "C14",
		Level: "exploration",
		Rule: "cases = (backend, multipart history over keys {a, a/b, a/c, d, ...; some with bytes below '/', leading white space, or the two-byte character é} with up to 3 uploads per key and part numbers with gaps, prefix, delimiter absent, '/' or 'é', bucket named in the path or in the Host header); for each history: ListMultipartUploads is compared with the model's pending uploads " +
			"(order by key then initiation, prefix/delimiter grouping), walked with every max-uploads 1..n+1 following NextKeyMarker/NextUploadIdMarker; ListParts of every pending upload is compared with the held parts and walked with every max-parts 1..n+1, " +
			"plus arbitrary numeric part-number markers (0, existing, in a gap, highest, beyond, 10000, 2^31); non-trivial = a walk with >= 2 pages over >= 2 keys, or parts with a gap, or a second ListParts page; distinct by the full case",
		Replay: c14Replay,
		Run:    c14Run,
	})
}

func c14GenProgram(rt *rapid.T) []prog.Op {
	var ops []prog.Op
	var gone []bool
	n := rapid.IntRange(3, 28).Draw(rt, "n")
	if rapid.IntRange(0, 3).Draw(rt, "many") == 0 {
		// many uploads on few keys: IDs 1..12+ interleaved over the keys
		m := rapid.IntRange(10, 16).Draw(rt, "nmany")
		for i := 0; i < m; i++ {
			ops = append(ops, prog.Op{K: "init", B: "bk0", Key: c14Keys[i%rapid.IntRange(1, 3).Draw(rt, "spread")]})
			gone = append(gone, false)
		}
		n = rapid.IntRange(0, 6).Draw(rt, "nafter")
	}
	// a third of the histories keep a plain object in the bucket, so that deleting the bucket is
	// refused: a refused request changes nothing about the uploads in progress
	guarded := rapid.IntRange(0, 2).Draw(rt, "guarded") == 0
	if guarded {
		ops = append(ops, prog.Op{K: "put", B: "bk0", Key: "zz-plain-object", Body: []byte("keeps the bucket non-empty")})
	}
	for i := 0; i < n; i++ {
		kind := rapid.SampledFrom([]string{"init", "init", "part", "part", "part", "part", "abort", "complete"}).Draw(rt, "kind")
		if len(gone) == 0 {
			kind = "init"
		}
		if guarded && len(gone) > 0 && rapid.IntRange(0, 6).Draw(rt, "rmbucket") == 0 {
			ops = append(ops, prog.Op{K: "rmbucket", B: "bk0"})
		}
		switch kind {
		case "init":
			if len(gone) >= 16 { // more than 9: upload IDs of different widths ("9" vs "10") must sort by initiation
				continue
			}
			ops = append(ops, prog.Op{K: "init", B: "bk0", Key: rapid.SampledFrom(c14Keys).Draw(rt, "k")})
			gone = append(gone, false)
		case "part":
			u := rapid.IntRange(0, len(gone)-1).Draw(rt, "u")
			pn := rapid.SampledFrom([]int{1, 2, 3, 5, 7, 100, 9999, 10000}).Draw(rt, "pn")
			ops = append(ops, prog.Op{K: "part", Ref: u, PartN: pn, Body: prog.Pattern(rapid.IntRange(1, 30).Draw(rt, "size"), uint64(i))})
		case "abort":
			if rapid.IntRange(0, 2).Draw(rt, "doabort") == 0 {
				u := rapid.IntRange(0, len(gone)-1).Draw(rt, "u")
				ops = append(ops, prog.Op{K: "abort", Ref: u})
			}
		case "complete":
			if rapid.IntRange(0, 2).Draw(rt, "docomplete") == 0 {
				u := rapid.IntRange(0, len(gone)-1).Draw(rt, "u")
				ops = append(ops, prog.Op{K: "complete", Ref: u, Parts: []prog.Part{{N: rapid.SampledFrom([]int{1, 2, 3}).Draw(rt, "cn")}}})
			}
		}
	}
	return ops
}

func c14Run(t *testing.T, c *evid.Collector) {
	kinds := kindsFromEnv([]backends.Kind{backends.Mem, backends.Bolt, backends.MultiMem})
	record := func(cs c14Case, ds []disc, info map[string]int, src string) bool {
		nt := (info["multi-page-upload-walks"] > 0 && info["keys-with-uploads"] >= 2) || info["gaps"] > 0 || info["multi-page-part-walks"] > 0
		ls := []string{"backend:" + string(cs.Backend), "src:" + src}
		if cs.Host {
			ls = append(ls, "host-style")
		}
		for _, k := range []string{"multi-page-upload-walks", "gaps", "multi-page-part-walks", "arbitrary-markers", "prefixes"} {
			if info[k] > 0 {
				ls = append(ls, k)
			}
		}
		c.Case(evid.FP(mustJSON(cs)), nt, func() interface{} { return cs }, ls...)
		return report(c, "mpu-listing", ds, cs)
	}
	pds := [][2]string{{"", ""}, {"", "/"}, {"a", ""}, {"a", "/"}, {"a/", "/"}, {"d", "/"}, {"a/b", ""}, {"x", ""},
		// a delimiter is a character, not a byte: uploads are grouped by one of several bytes the way objects are
		{"", "é"}, {"d", "é"}, {"dé1", "é"}}
	if evid.Shard() == 0 {
		b := func(s string) []byte { return []byte(s) }
		ini := func(k string) prog.Op { return prog.Op{K: "init", B: "bk0", Key: k} }
		hs := [][]prog.Op{
			{ini("a")},
			{ini("a"), ini("a"), ini("a/b"), ini("a/c"), ini("d"), ini("d")},
			{ini("a/b"), ini("a/c"), ini("a/b")},
			{ini("d"), {K: "part", Ref: 0, PartN: 1, Body: b("1")}, {K: "part", Ref: 0, PartN: 2, Body: b("22")}, {K: "part", Ref: 0, PartN: 5, Body: b("55555")}, {K: "part", Ref: 0, PartN: 10000, Body: b("x")}},
			{ini("a"), ini("d"), {K: "part", Ref: 1, PartN: 3, Body: b("333")}, {K: "part", Ref: 1, PartN: 7, Body: b("7")}, {K: "abort", Ref: 0}, ini("a/c"), ini("a/b")},
			{ini("a"), ini("d"), ini("a/b"), ini("a"), ini("d"), ini("a/b"), ini("a"), ini("d"), ini("a/b"), ini("a"), ini("d"), ini("a/b"), ini("a"), {K: "abort", Ref: 3}},
			// keys that begin with white space are keys like any other: their markers come back as they were handed out
			{ini(" lead"), ini(" lead"), ini("a"), ini("\tq"), ini("\tq"), ini(" lead")},
			// keys in a prefix relation whose longer one goes on with a byte below '/': ordered by key, not by key + "/"
			{ini("a"), ini("a-1"), ini("a.csv"), ini("a"), ini("ab"), ini("a b"), ini("a/b"), ini("a-1")},
			// a delimiter of more than one byte
			{ini("dé1é2"), ini("d"), ini("dé1é3"), ini("déz"), ini("dé1é2"), ini("a/b"), ini("d.x")},
			// a refused request to delete the (non-empty) bucket leaves the uploads in progress and their parts alone
			{{K: "put", B: "bk0", Key: "zz-plain-object", Body: b("x")}, ini("a/b"), ini("a/b"), ini("d"), {K: "part", Ref: 0, PartN: 1, Body: b("one")}, {K: "part", Ref: 0, PartN: 3, Body: b("three")}, {K: "rmbucket", B: "bk0"}, ini("a/c")},
			// a completion the backend refuses (file system backends: the key collides with the live key "a"):
			// the upload was neither completed nor aborted, so it stays listed with its parts
			{ini("a"), {K: "part", Ref: 0, PartN: 1, Body: b("1")}, {K: "complete", Ref: 0, Parts: []prog.Part{{N: 1}}}, ini("d"), ini("a/b"), {K: "part", Ref: 2, PartN: 1, Body: b("one")},
				{K: "part", Ref: 2, PartN: 4, Body: b("four")}, {K: "complete", Ref: 2, Parts: []prog.Part{{N: 1}, {N: 4}}}, ini("a/c")},
		}
		for _, k := range kinds {
			for _, h := range hs {
				for _, pd := range pds {
					cs := c14Case{Backend: k, Ops: h, Prefix: pd[0], Delim: pd[1]}
					ds, info := c14Exec(cs)
					record(cs, ds, info, "fixed")
				}
			}
		}
		// the same bookkeeping when the bucket is named in the Host header; and keys with an empty path
		// segment, which are keys of their own in either form of addressing (key-value backends)
		hh := [][]prog.Op{
			hs[1], hs[3], hs[4],
			{ini("a//b"), ini("a/b"), ini("a//b"), {K: "part", Ref: 0, PartN: 1, Body: b("one")}, {K: "part", Ref: 1, PartN: 2, Body: b("two")}, ini("d//x"), {K: "abort", Ref: 2}, ini("a/b")},
		}
		for _, k := range kinds {
			if k.IsFs() {
				continue
			}
			for hi, h := range hh {
				for _, host := range []bool{false, true} {
					if !host && hi < 3 {
						continue
					}
					for _, pd := range pds {
						if pd[1] == "/" && strings.HasPrefix(pd[0], "a/") {
							continue // the rest of a//b would begin with the delimiter
						}
						cs := c14Case{Backend: k, Ops: h, Prefix: pd[0], Delim: pd[1], Host: host}
						ds, info := c14Exec(cs)
						record(cs, ds, info, "fixed-host")
					}
				}
			}
		}
	}
	rapidRun(t, "random", evid.Scale(700, 15000), func(rt *rapid.T) {
		k := rapid.SampledFrom(kinds).Draw(rt, "backend")
		pd := rapid.SampledFrom(pds).Draw(rt, "pd")
		cs := c14Case{Backend: k, Ops: c14GenProgram(rt), Prefix: pd[0], Delim: pd[1], Host: rapid.IntRange(0, 3).Draw(rt, "host") == 0}
		ds, info := c14Exec(cs)
		if record(cs, ds, info, "random") {
			rt.Fatalf("C14 violated: %v", ds)
		}
	})
	_ = strings.Join
}

//go:build verif

package props

import (
	"crypto/md5"
	"encoding/hex"
	"encoding/json"
	"flag"
	"fmt"
	"os"
	"path/filepath"
	"sort"
	"strconv"
	"strings"
	"testing"

	"verif/harness/backends"
	"verif/harness/evid"
	"verif/harness/s3x"

	"pgregory.net/rapid"
)

type disc = evid.Disc

func dsc(kind, format string, a ...interface{}) []disc { return evid.D(kind, format, a...) }

// propDef wires one property into the common protocol.
type propDef struct {
	ID    string
	Level string
	Rule  string
	// Replay re-executes a serialised case of the named check without any
	// generator library and returns the discrepancies it shows.
	Replay func(check string, cs json.RawMessage) ([]disc, error)
	Run    func(t *testing.T, c *evid.Collector)
}

type replayFile struct {
	Property string          `json:"property"`
	Check    string          `json:"check"`
	Kind     string          `json:"kind"`
	Detail   string          `json:"detail"`
	Case     json.RawMessage `json:"case"`
}

func loadReplay(path string) (*replayFile, error) {
	b, err := os.ReadFile(path)
	if err != nil {
		return nil, err
	}
	var rf replayFile
	if err := json.Unmarshal(b, &rf); err != nil {
		return nil, err
	}
	return &rf, nil
}

func runProp(t *testing.T, p propDef) {
	c := evid.New(p.ID, p.Level, p.Rule)
	defer func() {
		if r := recover(); r != nil {
			c.Inconclusive(fmt.Sprintf("harness panic: %v", r))
			c.Finish()
			panic(r)
		}
	}()
	finished := false
	finish := func() {
		if finished {
			return
		}
		finished = true
		if n := c.Finish(); n > 0 {
			t.Errorf("%d violation(s)", n)
		}
	}
	t.Cleanup(finish)

	if rp := os.Getenv("VERIF_REPLAY"); rp != "" {
		rf, err := loadReplay(rp)
		if err != nil {
			c.Inconclusive("cannot load replay: " + err.Error())
			return
		}
		ds, err := p.Replay(rf.Check, rf.Case)
		if err != nil {
			c.Inconclusive("cannot replay: " + err.Error())
			return
		}
		c.Case(evid.FP(string(rf.Case)), true, func() interface{} { return rf.Case })
		c.Case(evid.FP(string(rf.Case), "x"), true, nil)
		for _, d := range ds {
			c.Violate(rf.Check, d.Kind, d.Detail, rf.Case)
		}
		if len(ds) == 0 {
			fmt.Printf("REPLAY property=%s: no discrepancy (the recorded failure does not reproduce)\n", p.ID)
		}
		return
	}

	// 1. witnesses of listed findings
	for _, f := range evid.Findings() {
		if f.Property != p.ID || f.Witness == "" {
			continue
		}
		rf, err := loadReplay(filepath.Join(evid.Root(), f.Witness))
		if err != nil {
			c.Inconclusive("witness " + f.ID + ": " + err.Error())
			continue
		}
		ds, err := p.Replay(rf.Check, rf.Case)
		if err != nil {
			c.Inconclusive("witness " + f.ID + ": " + err.Error())
			continue
		}
		switch {
		case f.Status == "open" && len(ds) > 0:
			c.KnownReproduced(f.ID, f.What+" [still reproduces: "+ds[0].Kind+"]")
		case f.Status == "open":
			c.KnownGone(f.ID)
		case f.Status == "fixed" && len(ds) > 0:
			// discrepancies that carry the signature of a finding that is still open do not
			// count against a fixed one
			for _, d := range ds {
				if d.KF != "" && evid.Open(d.KF) {
					continue
				}
				c.Violate("regression-"+f.ID, d.Kind, "fixed finding "+f.ID+" is back: "+d.Detail, rf.Case)
				break
			}
		}
	}

	// 2. generated search
	p.Run(t, c)
}

// report applies the known-findings protocol to the discrepancies of one case.
// It returns true when the case shows a violation that is not a listed open
// finding.
func report(c *evid.Collector, check string, ds []disc, cs interface{}) bool {
	bad := false
	for _, d := range ds {
		if d.KF != "" && evid.Open(d.KF) {
			c.Excluded(d.KF)
			continue
		}
		c.Violate(check, d.Kind, d.Detail, cs)
		bad = true
	}
	return bad
}

// rapidRun runs a rapid check with n cases as a sub-test (a failed rapid.Check
// calls FailNow, which must not take the property's Finish with it).
func rapidRun(t *testing.T, name string, n int, prop func(rt *rapid.T)) {
	seed := uint64(evid.Seed())*1_000_003 + uint64(evid.Shard()) + 1
	flag.Set("rapid.seed", strconv.FormatUint(seed, 10))
	flag.Set("rapid.checks", strconv.Itoa(n))
	flag.Set("rapid.nofailfile", "true")
	flag.Set("rapid.shrinktime", "20s")
	t.Run(name, func(t *testing.T) {
		rapid.Check(t, prop)
	})
}

// ---- small S3 client helpers -----------------------------------------------------

func md5hex(b []byte) string {
	s := md5.Sum(b)
	return hex.EncodeToString(s[:])
}

func etagOf(b []byte) string { return `"` + md5hex(b) + `"` }

func put(st *backends.Stack, bucket, key string, body []byte, hdr ...string) *s3x.Resp {
	return s3x.Do(st.Handler, &s3x.Req{Method: "PUT", Path: "/" + bucket + "/" + key, Body: body, Header: s3x.H(hdr...)})
}

func get(st *backends.Stack, bucket, key string, hdr ...string) *s3x.Resp {
	return s3x.Do(st.Handler, &s3x.Req{Method: "GET", Path: "/" + bucket + "/" + key, Header: s3x.H(hdr...)})
}

func head(st *backends.Stack, bucket, key string) *s3x.Resp {
	return s3x.Do(st.Handler, &s3x.Req{Method: "HEAD", Path: "/" + bucket + "/" + key})
}

func del(st *backends.Stack, bucket, key string) *s3x.Resp {
	return s3x.Do(st.Handler, &s3x.Req{Method: "DELETE", Path: "/" + bucket + "/" + key})
}

func mkBucket(st *backends.Stack, bucket string) *s3x.Resp {
	return s3x.Do(st.Handler, &s3x.Req{Method: "PUT", Path: "/" + bucket})
}

// ensureBucket creates the bucket unless the configuration is single-bucket.
func ensureBucket(st *backends.Stack, bucket string) error {
	if st.Kind.IsSingle() {
		if bucket != backends.SingleBucketName {
			return fmt.Errorf("single-bucket stack has only %s", backends.SingleBucketName)
		}
		return nil
	}
	r := mkBucket(st, bucket)
	if r.Status != 200 {
		return fmt.Errorf("create bucket %s: %s", bucket, r)
	}
	return nil
}

func listDoc(st *backends.Stack, bucket string, q ...string) (*s3x.ListDoc, *s3x.Resp) {
	r := s3x.Do(st.Handler, &s3x.Req{Method: "GET", Path: "/" + bucket, Query: s3x.Q(q...)})
	if r.Status != 200 || r.Panic != "" {
		return nil, r
	}
	var d s3x.ListDoc
	if err := r.XML(&d); err != nil {
		return nil, r
	}
	return &d, r
}

func sortedCopy(s []string) []string {
	o := append([]string(nil), s...)
	sort.Strings(o)
	return o
}

func eqStrings(a, b []string) bool {
	if len(a) != len(b) {
		return false
	}
	for i := range a {
		if a[i] != b[i] {
			return false
		}
	}
	return true
}

func mustJSON(v interface{}) string {
	b, _ := json.Marshal(v)
	return string(b)
}

func kindsFromEnv(def []backends.Kind) []backends.Kind {
	v := os.Getenv("VERIF_BACKENDS")
	if v == "" {
		return def
	}
	var out []backends.Kind
	for _, s := range strings.Split(v, ",") {
		out = append(out, backends.Kind(s))
	}
	return out
}

func md5hexBytes(b []byte) []byte {
	s := md5.Sum(b)
	return s[:]
}

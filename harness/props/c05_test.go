//go:build verif

package props

import (
	"encoding/json"
	"fmt"
	"sort"
	"testing"

	"verif/harness/backends"
	"verif/harness/evid"
	"verif/harness/prog"
	"verif/harness/s3x"

	"pgregory.net/rapid"
)

// C05 — versioning never loses history and always serves the newest remaining version.

var c05Keys = []string{"k0", "k1"}

// c05CrossCheck compares the ID set of ListObjectVersions with the model.
func c05CrossCheck(r *prog.Runner, b string) []disc {
	resp := s3x.Do(r.St.Handler, &s3x.Req{Method: "GET", Path: "/" + b, Query: s3x.Q("versions", s3x.Bare)})
	if resp.Panic != "" {
		return dsc("panic", "ListObjectVersions: %s at %s", resp.Panic, resp.PanicSite)
	}
	if resp.Status != 200 {
		return dsc("versions-list-failed", "ListObjectVersions answered %s", resp)
	}
	doc, err := s3x.ParseVersions(resp.Body)
	if err != nil {
		return dsc("bad-xml", "ListObjectVersions: %v", err)
	}
	mb := r.M.Buckets[b]
	var want, got []string
	for k, mk := range mb.Keys {
		for _, e := range mk.Entries {
			if e.Null || e.ID == "" || e.ID[0] == '?' {
				continue
			}
			want = append(want, k+"\x00"+e.ID)
		}
	}
	known := map[string]bool{}
	for _, w := range want {
		known[w] = true
	}
	for _, e := range doc.Entries {
		id := e.Key + "\x00" + e.VersionId
		if known[id] {
			got = append(got, id)
		}
	}
	sort.Strings(want)
	sort.Strings(got)
	if !eqStrings(got, want) {
		return dsc("versions-list-mismatch", "ListObjectVersions shows %d of the %d versions the model holds: got %q want %q", len(got), len(want), got, want)
	}
	return nil
}

type c05Labels map[string]bool

func c05Exec(cs progCase, classify func(r *prog.Runner) func(op prog.Op, d *disc)) (ds []disc, labels c05Labels) {
	st := backends.Must(cs.Backend, cs.Opts)
	defer st.Close()
	r := prog.NewRunner(st)
	if classify != nil {
		r.Classify = classify(r)
	}
	labels = c05Labels{}
	if d := r.Step(prog.Op{K: "mkbucket", B: "bk0"}); len(d) > 0 {
		return d, labels
	}
	wasSuspended := false
	for i, op := range cs.Ops {
		mb := r.M.Buckets["bk0"]
		// labels from the state before the op
		switch op.K {
		case "delver":
			id := r.VersionID("bk0", op.Key, op.Ref)
			if mk := mb.Keys[op.Key]; mk != nil && len(mk.Entries) > 1 {
				newest := mk.Entries[len(mk.Entries)-1]
				if newest.ID == id {
					labels["delete-newest-while-older-remain"] = true
				}
				for _, e := range mk.Entries {
					if e.ID == id && e.Marker {
						labels["delete-a-delete-marker"] = true
					}
				}
			}
		case "put", "del":
			if mb.Versioning == "Suspended" {
				if mk := mb.Keys[op.Key]; mk != nil {
					for _, e := range mk.Entries {
						if !e.Null {
							labels["write-while-suspended-with-enabled-era-versions"] = true
						}
					}
				}
			}
		case "setver":
			if op.Status == "Suspended" && mb.Versioning == "Enabled" {
				wasSuspended = true
			}
			if op.Status == "Enabled" && mb.Versioning == "Suspended" && wasSuspended {
				labels["re-enable-after-suspension"] = true
			}
		}
		var sd []disc
		done := false
		if op.Via == "api" {
			sd, done = r.APIStep(op)
		}
		if !done {
			o := op
			if o.Via == "api" {
				o.Via = ""
			}
			sd = r.Step(o)
		}
		if len(sd) == 0 {
			sd = r.CheckVersions("bk0")
		}
		if len(sd) == 0 {
			sd = r.Invariant(c05Keys)
		}
		if len(sd) == 0 {
			sd = c05CrossCheck(r, "bk0")
			if r.Classify != nil {
				for j := range sd {
					r.Classify(op, &sd[j])
				}
			}
		}
		if len(sd) > 0 {
			for j := range sd {
				sd[j].Detail = fmt.Sprintf("step %d: %s", i, sd[j].Detail)
			}
			return sd, labels
		}
	}
	return nil, labels
}

func c05Nontrivial(l c05Labels) bool {
	return l["delete-newest-while-older-remain"] || l["write-while-suspended-with-enabled-era-versions"] || l["delete-a-delete-marker"] || l["re-enable-after-suspension"]
}

func c05Classify(r *prog.Runner) func(op prog.Op, d *disc) {
	return func(op prog.Op, d *disc) {}
}

func c05GenOp(rt *rapid.T) prog.Op {
	k := rapid.SampledFrom(c05Keys).Draw(rt, "k")
	kind := rapid.SampledFrom([]string{"put", "put", "put", "del", "del", "delver", "delver", "delver", "mdel", "get", "getver", "headver", "setver", "setver", "post", "copy"}).Draw(rt, "kind")
	op := prog.Op{K: kind, B: "bk0", Key: k}
	switch kind {
	case "put":
		op.Body = genBody(rt, "body")
		if rapid.IntRange(0, 2).Draw(rt, "meta") == 0 {
			op.Meta = [][2]string{{"X-Amz-Meta-V", fmt.Sprint(rapid.IntRange(0, 99).Draw(rt, "mv"))}}
		}
	case "post":
		// versions are also made by the other ways of storing an object
		op.K, op.Via, op.Body = "put", "post", genBody(rt, "body")
	case "copy":
		op.SB, op.SKey = "bk0", rapid.SampledFrom(c05Keys).Draw(rt, "src")
	case "delver", "getver", "headver":
		op.Ref = rapid.IntRange(-3, 6).Draw(rt, "ref")
	case "mdel":
		op.Key = ""
		n := rapid.IntRange(1, 4).Draw(rt, "n")
		for i := 0; i < n; i++ {
			op.Keys = append(op.Keys, rapid.SampledFrom(c05Keys).Draw(rt, "mk"))
			if rapid.Bool().Draw(rt, "withver") {
				op.VRefs = append(op.VRefs, rapid.IntRange(-3, 6).Draw(rt, "vref"))
			} else {
				op.VRefs = append(op.VRefs, -1000000)
			}
		}
		// one request may name several versions of one key (the runner drops entries that
		// resolve to the same ID); a plain entry for a key excludes every other entry for it
		plain, versioned := map[string]bool{}, map[string]bool{}
		var ks []string
		var vr []int
		for i, kk := range op.Keys {
			isPlain := op.VRefs[i] < 0
			if plain[kk] || (isPlain && versioned[kk]) {
				continue
			}
			if isPlain {
				plain[kk] = true
			} else {
				versioned[kk] = true
			}
			ks = append(ks, kk)
			vr = append(vr, op.VRefs[i])
		}
		op.Keys, op.VRefs = ks, vr
		op.Quiet = rapid.Bool().Draw(rt, "quiet")
	case "setver":
		op.Key = ""
		op.Status = rapid.SampledFrom([]string{"Enabled", "Enabled", "Suspended"}).Draw(rt, "status")
	}
	return op
}

func c05Replay(check string, raw json.RawMessage) ([]disc, error) {
	var cs progCase
	if err := json.Unmarshal(raw, &cs); err != nil {
		return nil, err
	}
	ds, _ := c05Exec(cs, nil)
	return ds, nil
}

func TestC05(t *testing.T) {
	runProp(t, propDef{
		ID:    "C05",
		Level: "exploration",
		Rule: "cases = versioning histories on s3mem; bounded-exhaustive: every program of length <= L (L=4 quick, 5 thorough) over a 9-op alphabet on one key after an initial Enable; " +
			"random: rapid programs of 10-60 ops over 2 keys (put, browser-form POST, copy between the keys, one-part multipart uploads completed with other ops in between, delete, delete-version(ref), multi-delete with/without version refs, get, get/head-version(ref), set-versioning Enabled|Suspended), refs symbolic over all IDs ever issued; " +
			"after EVERY step each remaining enabled-era version is read back by ID with GET and HEAD (every other version with the ETag of a different version of the key as If-None-Match, which it does not match), the unqualified read is compared with the newest remaining entry, and ListObjectVersions is cross-checked; " +
			"non-trivial = the program deletes the newest version while older remain, writes/deletes while suspended with enabled-era versions present, deletes a delete marker, or re-enables after suspension",
		Replay: c05Replay,
		Run:    c05Run,
	})
}

func c05Alphabet() []prog.Op {
	return []prog.Op{
		{K: "put", B: "bk0", Key: "k0"},
		{K: "del", B: "bk0", Key: "k0"},
		{K: "delver", B: "bk0", Key: "k0", Ref: -1},
		{K: "delver", B: "bk0", Key: "k0", Ref: 0},
		{K: "delver", B: "bk0", Key: "k0", Ref: 1},
		{K: "setver", B: "bk0", Status: "Suspended"},
		{K: "setver", B: "bk0", Status: "Enabled"},
		{K: "mdel", B: "bk0", Keys: []string{"k0"}, VRefs: []int{-1}},
		{K: "mdel", B: "bk0", Keys: []string{"k0"}, VRefs: []int{-1000000}},
		{K: "mdel", B: "bk0", Keys: []string{"k0", "k0"}, VRefs: []int{1, 0}}, // two versions of one key in one request
	}
}

func c05Run(t *testing.T, c *evid.Collector) {
	al := c05Alphabet()
	L := evid.Scale(4, 5)
	idx := make([]int, L)
	var count int64
	var enum func(depth, length int)
	enum = func(depth, length int) {
		if depth == length {
			count++
			if int(count)%evid.Shards() != evid.Shard() {
				return
			}
			ops := []prog.Op{{K: "setver", B: "bk0", Status: "Enabled"}}
			for i := 0; i < length; i++ {
				o := al[idx[i]]
				if o.K == "put" {
					o.Body = []byte(fmt.Sprintf("v%d", i))
				}
				ops = append(ops, o)
			}
			cs := progCase{Backend: backends.Mem, Ops: ops}
			ds, labels := c05Exec(cs, func(r *prog.Runner) func(op prog.Op, d *disc) { return c05Classify(r) })
			var ls []string
			for l := range labels {
				ls = append(ls, l)
			}
			c.Case(evid.FP(mustJSON(cs)), c05Nontrivial(labels), func() interface{} { return cs }, append(ls, "src:exhaustive")...)
			report(c, "history", ds, cs)
			return
		}
		for i := range al {
			idx[depth] = i
			enum(depth+1, length)
		}
	}
	for length := 1; length <= L; length++ {
		enum(0, length)
	}
	c.Set("exhaustive_scope", fmt.Sprintf("all programs of length 1..%d over a %d-op alphabet on one key after an initial Enable (s3mem): complete (split over shards)", L, len(al)))
	c.Exhaustive(false)

	// fixed histories (ignore the seed): versions are also created by copies, over HTTP and through
	// the Go API (nil metadata map); a copy leaves every version of its source as it was
	if evid.Shard() == 0 {
		en, su := prog.Op{K: "setver", B: "bk0", Status: "Enabled"}, prog.Op{K: "setver", B: "bk0", Status: "Suspended"}
		sent := [][2]string{{"X-Amz-Meta-V", "copied"}, {"X-Amz-Meta-Only-On-Copy", "c"}}
		put := func(k, body, tag string) prog.Op {
			return prog.Op{K: "put", B: "bk0", Key: k, Body: []byte(body), Meta: [][2]string{{"X-Amz-Meta-V", tag}}}
		}
		cp := func(dst, src, via string, meta [][2]string) prog.Op {
			return prog.Op{K: "copy", B: "bk0", Key: dst, SB: "bk0", SKey: src, Via: via, Meta: meta}
		}
		for _, h := range [][]prog.Op{
			{en, put("k0", "one", "1"), put("k1", "other", "o"), cp("k1", "k0", "", sent), cp("k1", "k0", "directive-copy", nil), {K: "getver", B: "bk0", Key: "k0", Ref: 0}, cp("k1", "k0", "api", nil), {K: "getver", B: "bk0", Key: "k0", Ref: 0}, put("k0", "two", "2"), cp("k1", "k0", "api", nil), {K: "getver", B: "bk0", Key: "k0", Ref: 0}, {K: "getver", B: "bk0", Key: "k0", Ref: 1}},
			{put("k0", "zero", "0"), en, put("k0", "one", "1"), cp("k0", "k0", "", sent), cp("k1", "k0", "api", nil), su, cp("k1", "k1", "api", nil), cp("k0", "k1", "api", nil), {K: "delver", B: "bk0", Key: "k0", Ref: -1}, {K: "getver", B: "bk0", Key: "k0", Ref: 0}},
		} {
			cs := progCase{Backend: backends.Mem, Driver: "mixed", Ops: h}
			ds, labels := c05Exec(cs, func(r *prog.Runner) func(op prog.Op, d *disc) { return c05Classify(r) })
			var ls []string
			for l := range labels {
				ls = append(ls, l)
			}
			c.Case(evid.FP(mustJSON(cs)), true, func() interface{} { return cs }, append(ls, "src:fixed-copies")...)
			report(c, "history", ds, cs)
		}
	}

	rapidRun(t, "random", evid.Scale(2000, 40000), func(rt *rapid.T) {
		n := rapid.IntRange(10, 60).Draw(rt, "n")
		cs := progCase{Backend: backends.Mem}
		switch rapid.IntRange(0, 3).Draw(rt, "start") {
		case 0: // start never-versioned with some objects
		default:
			cs.Ops = append(cs.Ops, prog.Op{K: "setver", B: "bk0", Status: "Enabled"})
		}
		uploads := 0
		for i := 0; i < n; i++ {
			if rapid.IntRange(0, 11).Draw(rt, "mpu") == 0 {
				// ... and by completing a multipart upload
				k := rapid.SampledFrom(c05Keys).Draw(rt, "uk")
				cs.Ops = append(cs.Ops, prog.Op{K: "init", B: "bk0", Key: k},
					prog.Op{K: "part", Ref: uploads, PartN: 1, Body: append([]byte("p"), genBody(rt, "pbody")...)})
				if rapid.Bool().Draw(rt, "between") {
					cs.Ops = append(cs.Ops, c05GenOp(rt))
				}
				cs.Ops = append(cs.Ops, prog.Op{K: "complete", Ref: uploads, Parts: []prog.Part{{N: 1}}})
				uploads++
				continue
			}
			cs.Ops = append(cs.Ops, c05GenOp(rt))
		}
		ds, labels := c05Exec(cs, func(r *prog.Runner) func(op prog.Op, d *disc) { return c05Classify(r) })
		var ls []string
		for l := range labels {
			ls = append(ls, l)
		}
		if uploads > 0 {
			ls = append(ls, "version-by-multipart")
		}
		c.Case(evid.FP(mustJSON(cs)), c05Nontrivial(labels), func() interface{} { return cs }, append(ls, "src:random")...)
		if report(c, "history", ds, cs) {
			rt.Fatalf("C05 violated: %v", ds)
		}
	})
}

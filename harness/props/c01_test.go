//go:build verif

package props

import (
	"bytes"
	"crypto/md5"
	"encoding/base64"
	"encoding/hex"
	"encoding/json"
	"fmt"
	"io"
	"mime/multipart"
	"net/http"
	"net/http/httptest"
	"net/url"
	"sort"
	"strconv"
	"strings"
	"sync"
	"testing"
	"unicode"
	"unicode/utf8"

	"verif/harness/backends"
	"verif/harness/evid"
	"verif/harness/prog"
	"verif/harness/s3x"

	"pgregory.net/rapid"
)

// C01 — stored objects come back byte-for-byte with size, ETag and metadata.

type bodySpec struct {
	Lit  []byte `json:"lit,omitempty"`
	N    int    `json:"n,omitempty"` // if > 0: prog.Pattern(N, Seed)
	Seed uint64 `json:"seed,omitempty"`
}

func (b bodySpec) bytes() []byte {
	if b.N > 0 {
		return prog.Pattern(b.N, b.Seed)
	}
	if b.Lit == nil {
		return []byte{}
	}
	return b.Lit
}

type c01Case struct {
	Backend      backends.Kind `json:"backend"`
	IntegrityOff bool          `json:"integrityOff,omitempty"`
	Key          string        `json:"key"`
	Body         bodySpec      `json:"body"`
	Meta         [][2]string   `json:"meta,omitempty"`
	Path         string        `json:"path"` // put | put-md5 | post | copy | api
	Overwrite    bool          `json:"overwrite,omitempty"`
	PrevByCopy   bool          `json:"prevByCopy,omitempty"` // with Overwrite: the replaced object was itself created by a server-side copy
	CopySelf     bool          `json:"copySelf,omitempty"`   // path copy: the destination is the source key itself
	Frag         s3x.Frag      `json:"frag,omitempty"`
}

// c01N counts the checks (every third one also issues a refused bucket delete before reading back)
var c01N int

var (
	c01Mu     sync.Mutex
	c01Stacks = map[string]*backends.Stack{}
)

func c01Stack(k backends.Kind, integrityOff bool) *backends.Stack {
	c01Mu.Lock()
	defer c01Mu.Unlock()
	id := fmt.Sprintf("%s/%v", k, integrityOff)
	if st := c01Stacks[id]; st != nil {
		return st
	}
	st := backends.Must(k, backends.Options{IntegrityOff: integrityOff})
	if err := ensureBucket(st, "bk0"); err != nil {
		panic(err)
	}
	// an object acknowledged before every case of this stack: it is read again after each of them
	if r := put(st, "bk0", c01EarlierKey, c01EarlierBody, "X-Amz-Meta-Earlier", "yes", "Content-Type", "text/earlier"); r.Status != 200 {
		panic("harness: " + r.String())
	}
	c01Stacks[id] = st
	return st
}

const c01EarlierKey = "c01-acknowledged-earlier.bin"

var c01EarlierBody = []byte("uploaded and acknowledged before anything else happened on this server")

func c01CloseStacks() {
	c01Mu.Lock()
	defer c01Mu.Unlock()
	for id, st := range c01Stacks {
		st.Close()
		delete(c01Stacks, id)
	}
}

func xmlSafe(s string) bool {
	if !utf8.ValidString(s) {
		return false
	}
	for _, r := range s {
		if r < 0x20 || r == 0xFFFE || r == 0xFFFF || r == 0x7f {
			return false
		}
	}
	return true
}

// c01Check runs one round trip and returns its discrepancies.
// c01MetaBytes expands the \xHH escapes of a case's metadata values: a case is kept as JSON,
// which cannot hold byte strings that are not UTF-8.
func c01MetaBytes(meta [][2]string) [][2]string {
	out := make([][2]string, len(meta))
	for i, kv := range meta {
		v := kv[1]
		var b []byte
		for j := 0; j < len(v); j++ {
			if v[j] == '\\' && j+3 < len(v) && v[j+1] == 'x' {
				if n, err := strconv.ParseUint(v[j+2:j+4], 16, 8); err == nil {
					b = append(b, byte(n))
					j += 3
					continue
				}
			}
			b = append(b, v[j])
		}
		out[i] = [2]string{kv[0], string(b)}
	}
	return out
}

func c01Check(cs c01Case) (ds []disc) {
	cs.Meta = c01MetaBytes(cs.Meta)
	st := c01Stack(cs.Backend, cs.IntegrityOff)
	body := cs.Body.bytes()
	et := etagOf(body)
	key := cs.Key
	readKey := key
	fail := func(kind, f string, a ...interface{}) {
		ds = append(ds, disc{Kind: kind, Detail: fmt.Sprintf("backend=%s path=%s key=%q len=%d: ", cs.Backend, cs.Path, trunc([]byte(key), 60), len(body)) + fmt.Sprintf(f, a...)})
	}
	cleanup := []string{key}
	defer func() {
		for _, k := range cleanup {
			del(st, "bk0", k)
		}
	}()
	if cs.Overwrite {
		// the object being replaced carries, besides headers of its own, every header name of the
		// new upload with a stale value: what the new upload sends (an empty value included) wins
		prev := []string{"X-Amz-Meta-Old", "old-value", "Content-Type", "text/old"}
		for _, kv := range cs.Meta {
			if !strings.EqualFold(kv[0], "Content-Type") {
				prev = append(prev, kv[0], "stale value of the replaced object")
			}
		}
		prevKey := key
		if cs.PrevByCopy {
			// the replaced object is the destination of an earlier copy (whose source still exists)
			prevKey = "c01-source-of-the-previous-object"
			cleanup = append(cleanup, prevKey)
		}
		r := put(st, "bk0", prevKey, []byte("previous content of the key"), prev...)
		if r.Status != 200 {
			fail("pre-put", "cannot store the previous object: %s", r)
			return
		}
		if cs.PrevByCopy {
			if r := s3x.Do(st.Handler, &s3x.Req{Method: "PUT", Path: "/bk0/" + key, Header: s3x.H("X-Amz-Copy-Source", "/bk0/"+prevKey)}); r.Status != 200 {
				fail("pre-put", "cannot store the previous object by copy: %s", r)
				return
			}
		}
	}
	// a sibling key that the fs backends' metadata file naming flattens to the same name
	// ('/' and '\\' become '_'): it is stored with different metadata before and read after
	sibling := ""
	if strings.ContainsAny(key, "/\\") {
		sib := strings.NewReplacer("/", "_", "\\", "_").Replace(key)
		if sib != key && len(sib) <= 255 {
			sibling = sib
		}
	} else if i := strings.IndexByte(key, '_'); i > 0 && i < len(key)-1 && !cs.Backend.IsFs() {
		sibling = key[:i] + "/" + key[i+1:]
	}
	sibBody := []byte("sibling object of " + key)
	if sibling != "" {
		cleanup = append(cleanup, sibling)
		if r := put(st, "bk0", sibling, sibBody, "X-Amz-Meta-Sibling", "yes", "Content-Type", "application/x-sibling"); r.Status != 200 {
			fail("sibling-put", "cannot store the sibling key %q: %s", sibling, r)
			return
		}
	}
	defer func() {
		if sibling == "" || len(ds) > 0 {
			return
		}
		g := get(st, "bk0", sibling)
		if g.Status != 200 || !bytes.Equal(g.Body, sibBody) || g.Header.Get("X-Amz-Meta-Sibling") != "yes" || g.Header.Get("Content-Type") != "application/x-sibling" || g.Header.Get("ETag") != etagOf(sibBody) {
			fail("sibling-changed", "the upload changed the sibling key %q: GET %d, %d bytes, ETag %s, Content-Type %q, X-Amz-Meta-Sibling %q", sibling, g.Status, len(g.Body), g.Header.Get("ETag"), g.Header.Get("Content-Type"), g.Header.Get("X-Amz-Meta-Sibling"))
		}
	}()
	metaSent := cs.Meta
	defer func() { _ = metaSent }()
	switch cs.Path {
	case "put", "put-md5", "copy":
		hdr := append([][2]string(nil), cs.Meta...)
		if cs.Path == "put-md5" {
			sum := md5.Sum(body)
			hdr = append(hdr, [2]string{"Content-MD5", base64.StdEncoding.EncodeToString(sum[:])})
		}
		r := s3x.Do(st.Handler, &s3x.Req{Method: "PUT", Path: "/bk0/" + key, Header: hdr, Body: body, Frag: cs.Frag})
		if r.Panic != "" {
			fail("panic", "PUT: %s at %s", r.Panic, r.PanicSite)
			return
		}
		if r.Status != 200 {
			fail("put-refused", "PUT answered %s", r)
			return
		}
		if got := r.Header.Get("ETag"); got != et {
			fail("put-etag", "PUT ETag %s want %s", got, et)
		}
		if cs.Path == "copy" {
			if !cs.CopySelf {
				readKey = c01CopyDest(key)
				cleanup = append(cleanup, readKey)
			}
			// the copy request carries metadata of its own: the destination gets it on top of the
			// source's, the source must keep exactly what its PUT sent
			r := s3x.Do(st.Handler, &s3x.Req{Method: "PUT", Path: "/bk0/" + readKey, Header: s3x.H("X-Amz-Copy-Source", "/bk0/"+url.QueryEscape(key),
				"X-Amz-Meta-Copy-Only", "set by the copy request", "Content-Disposition", "attachment; filename=copy")})
			if r.Status != 200 || r.Panic != "" {
				fail("copy-refused", "copy answered %s", r)
				return
			}
			var doc s3x.CopyResultDoc
			if err := r.XML(&doc); err != nil || doc.ETag != et {
				fail("copy-etag", "CopyObjectResult ETag %q want %s (err %v)", doc.ETag, et, err)
			}
			src := s3x.Do(st.Handler, &s3x.Req{Method: "GET", Path: "/bk0/" + key})
			if src.Status != 200 || !bytes.Equal(src.Body, body) || src.Header.Get("ETag") != et {
				fail("copy-changed-source", "after the copy the source reads %d, %d bytes, ETag %s", src.Status, len(src.Body), src.Header.Get("ETag"))
			}
			if !cs.CopySelf {
				if src.Header.Get("X-Amz-Meta-Copy-Only") != "" {
					fail("copy-changed-source-metadata", "after the copy the source carries X-Amz-Meta-Copy-Only, a header only the copy request sent")
				}
				sentCD := ""
				for _, kv := range cs.Meta {
					if got := src.Header.Get(kv[0]); got != kv[1] {
						fail("copy-changed-source-metadata", "after the copy the source's %s is %q, its PUT sent %q", kv[0], got, kv[1])
					}
					if strings.EqualFold(kv[0], "Content-Disposition") {
						sentCD = kv[1]
					}
				}
				if got := src.Header.Get("Content-Disposition"); got != sentCD && !cs.Overwrite {
					fail("copy-changed-source-metadata", "after the copy the source's Content-Disposition is %q, its PUT sent %q", got, sentCD)
				}
			}
			// the destination: overrides win, the rest is inherited (checked below through metaSent)
			var inherited [][2]string
			for _, kv := range cs.Meta {
				if !strings.EqualFold(kv[0], "Content-Disposition") {
					inherited = append(inherited, kv)
				}
			}
			metaSentCopy := append(inherited, [2]string{"X-Amz-Meta-Copy-Only", "set by the copy request"}, [2]string{"Content-Disposition", "attachment; filename=copy"})
			defer func() { _ = metaSentCopy }()
			cs.Meta = metaSentCopy
		}
	case "post":
		var buf bytes.Buffer
		mw := multipart.NewWriter(&buf)
		mw.WriteField("key", key)
		fw, _ := mw.CreateFormFile("file", "f.bin")
		fw.Write(body)
		mw.Close()
		r := s3x.Do(st.Handler, &s3x.Req{Method: "POST", Path: "/bk0", Header: s3x.H("Content-Type", mw.FormDataContentType()), Body: buf.Bytes(), Frag: cs.Frag})
		if r.Status != 200 || r.Panic != "" {
			fail("post-refused", "form POST answered %s", r)
			return
		}
		if got := r.Header.Get("ETag"); got != et {
			fail("post-etag", "POST ETag %s want %s", got, et)
		}
		metaSent = nil // the statement restricts metadata to PUT
	case "api":
		var mm map[string]string // nil without metadata: backend.go says the map may be nil
		for _, kv := range cs.Meta {
			if mm == nil {
				mm = map[string]string{}
			}
			mm[httpCanon(kv[0])] = kv[1]
		}
		err := func() (err error) {
			defer func() {
				if p := recover(); p != nil {
					err = fmt.Errorf("panic: %v", p)
				}
			}()
			_, err = st.Backend.PutObject("bk0", key, mm, bytes.NewReader(body), int64(len(body)))
			return err
		}()
		if err != nil {
			fail("api-put", "Backend.PutObject(meta=%v): %v", mm, err)
			return
		}
	default:
		fail("harness", "unknown path %q", cs.Path)
		return
	}

	if cs.Path == "copy" {
		metaSent = cs.Meta
	}
	// a request to delete the bucket is refused while it holds the object (or is not supported at all);
	// a refused request changes nothing about what was acknowledged
	if c01N++; c01N%3 == 0 {
		if r := s3x.Do(st.Handler, &s3x.Req{Method: "DELETE", Path: "/bk0"}); r.Status/100 == 2 {
			fail("bucket-deleted", "DELETE of the bucket that holds the object just stored answered %s", r)
			return
		}
	}
	// --- read back through HTTP
	seenHdr := map[string]http.Header{}
	defer func() {
		// HEAD reports the same entity headers as GET: besides the ones checked one by one above,
		// every x-amz-* header that describes the object (not the request)
		g, h := seenHdr["GET"], seenHdr["HEAD"]
		if g == nil || h == nil {
			return
		}
		names := map[string]bool{}
		for _, hd := range []http.Header{g, h} {
			for n := range hd {
				if (strings.HasPrefix(n, "X-Amz-") && n != "X-Amz-Id-2" && n != "X-Amz-Request-Id") || n == "Content-Type" || n == "Content-Encoding" || n == "Content-Disposition" || n == "Last-Modified" || n == "Accept-Ranges" {
					names[n] = true
				}
			}
		}
		for n := range names {
			if fmt.Sprint(g[n]) != fmt.Sprint(h[n]) {
				fail("head-differs-from-get", "GET reports %s %q, HEAD reports %q", n, g[n], h[n])
			}
		}
	}()
	for _, method := range []string{"GET", "HEAD"} {
		r := s3x.Do(st.Handler, &s3x.Req{Method: method, Path: "/bk0/" + readKey})
		if r.Panic != "" {
			fail("panic", "%s: %s at %s", method, r.Panic, r.PanicSite)
			continue
		}
		if r.Status != 200 {
			fail("read-failed", "%s answered %s", method, r)
			continue
		}
		seenHdr[method] = r.Header
		if method == "GET" && !bytes.Equal(r.Body, body) {
			fail("body", "GET returned %d bytes (md5 %s), uploaded %d bytes (md5 %s)", len(r.Body), md5hex(r.Body), len(body), md5hex(body))
		}
		if method == "HEAD" && len(r.Body) != 0 {
			fail("head-body", "HEAD returned %d body bytes", len(r.Body))
		}
		if cl, ok := r.ContentLength(); !ok || cl != int64(len(body)) {
			fail("content-length", "%s Content-Length %d (present=%v) want %d", method, cl, ok, len(body))
		}
		if got := r.Header.Get("ETag"); got != et {
			fail("etag", "%s ETag %s want %s", method, got, et)
		}
		for _, kv := range metaSent {
			if got := r.Header.Get(kv[0]); got != kv[1] {
				fail("metadata", "%s header %s = %q, sent %q", method, kv[0], got, kv[1])
			}
		}
		if r.Header.Get("X-Amz-Meta-Sibling") != "" {
			fail("foreign-metadata", "%s returns X-Amz-Meta-Sibling, which was sent with a different key (%q)", method, sibling)
		}
	}
	// --- the same bytes uploaded again with the same header names but other values: the
	// acknowledged upload's metadata must be what reads return from then on
	if (cs.Path == "put" || cs.Path == "put-md5" || cs.Path == "api") && len(cs.Meta) > 0 && len(ds) == 0 {
		var hdr2 [][2]string
		for _, kv := range cs.Meta {
			v := kv[1] + "-v2"
			if strings.EqualFold(kv[0], "Content-Type") {
				v = "application/x-second-upload"
			}
			hdr2 = append(hdr2, [2]string{kv[0], v})
		}
		if cs.Path == "api" {
			mm := map[string]string{}
			for _, kv := range hdr2 {
				mm[httpCanon(kv[0])] = kv[1]
			}
			if _, err := st.Backend.PutObject("bk0", key, mm, bytes.NewReader(body), int64(len(body))); err != nil {
				fail("api-put", "second Backend.PutObject: %v", err)
			}
		} else if r := s3x.Do(st.Handler, &s3x.Req{Method: "PUT", Path: "/bk0/" + key, Header: hdr2, Body: body}); r.Status != 200 {
			fail("put-refused", "second PUT of the same bytes answered %s", r)
		}
		for _, method := range []string{"GET", "HEAD"} {
			r := s3x.Do(st.Handler, &s3x.Req{Method: method, Path: "/bk0/" + key})
			for _, kv := range hdr2 {
				if got := r.Header.Get(kv[0]); got != kv[1] {
					fail("metadata-of-reupload-lost", "%s after re-uploading the same bytes with new metadata: %s = %q, the acknowledged upload sent %q", method, kv[0], got, kv[1])
				}
			}
			if method == "GET" && (!bytes.Equal(r.Body, body) || r.Header.Get("ETag") != et) {
				fail("body", "GET after the re-upload: %d bytes, ETag %s", len(r.Body), r.Header.Get("ETag"))
			}
		}
		metaSent = hdr2
	}
	// --- listing entry
	if xmlSafe(readKey) {
		doc, r := listDoc(st, "bk0", "prefix", readKey)
		if doc == nil {
			fail("list-failed", "listing with prefix=key answered %s", r)
		} else {
			found := false
			for _, c := range doc.Contents {
				if c.Key == readKey {
					found = true
					if c.Size != int64(len(body)) || c.ETag != et {
						fail("list-entry", "listing entry Size=%d ETag=%s want %d %s", c.Size, c.ETag, len(body), et)
					}
				}
			}
			if !found {
				fail("list-missing", "key not in listing with prefix=key (%d entries)", len(doc.Contents))
			}
		}
	}
	// --- Go Backend API
	if obj, err := st.Backend.GetObject("bk0", readKey, nil); err != nil {
		fail("api-get", "Backend.GetObject: %v", err)
	} else {
		b, rerr := io.ReadAll(obj.Contents)
		obj.Contents.Close()
		if rerr != nil || !bytes.Equal(b, body) {
			fail("api-body", "Backend.GetObject contents: %d bytes, err %v", len(b), rerr)
		}
		if obj.Size != int64(len(body)) || hex.EncodeToString(obj.Hash) != md5hex(body) {
			fail("api-size-hash", "Backend.GetObject Size=%d Hash=%x want %d %s", obj.Size, obj.Hash, len(body), md5hex(body))
		}
		for _, kv := range metaSent {
			if got := obj.Metadata[httpCanon(kv[0])]; got != kv[1] {
				fail("api-metadata", "Backend.GetObject Metadata[%s]=%q sent %q", kv[0], got, kv[1])
			}
		}
	}
	if obj, err := st.Backend.HeadObject("bk0", readKey); err != nil {
		fail("api-head", "Backend.HeadObject: %v", err)
	} else {
		obj.Contents.Close()
		if obj.Size != int64(len(body)) || hex.EncodeToString(obj.Hash) != md5hex(body) {
			fail("api-size-hash", "Backend.HeadObject Size=%d Hash=%x want %d %s", obj.Size, obj.Hash, len(body), md5hex(body))
		}
	}
	// --- a later upload several levels *below* the key (accepted by the key-value backends, outside
	// the key domain of the file system backends while the key is live): whatever its fate, the
	// acknowledged object is still what GET returns
	if len(ds) == 0 && len(readKey)+len("/lower/deeper/leaf") <= 1024 && !strings.HasSuffix(readKey, "/") {
		lower := readKey + "/lower/deeper/leaf"
		lr := put(st, "bk0", lower, []byte("stored below the key"))
		if lr.Status == 200 {
			cleanup = append([]string{lower}, cleanup...)
		}
		g := get(st, "bk0", readKey)
		if g.Status != 200 || !bytes.Equal(g.Body, body) || g.Header.Get("ETag") != et {
			fail("lost-to-a-key-below", "after PUT of %q (answered %d) the object reads GET %d, %d bytes, ETag %s; it was acknowledged with %d bytes, ETag %s", trunc([]byte(lower), 80), lr.Status, g.Status, len(g.Body), g.Header.Get("ETag"), len(body), et)
		}
	}
	// "every GET of that key": the object acknowledged before all this still comes back as it was
	if key != c01EarlierKey && !strings.HasPrefix(key, c01EarlierKey+"/") {
		for _, m := range []string{"GET", "HEAD"} {
			g := s3x.Do(st.Handler, &s3x.Req{Method: m, Path: "/bk0/" + c01EarlierKey})
			cl, _ := g.ContentLength()
			if g.Status != 200 || (m == "GET" && !bytes.Equal(g.Body, c01EarlierBody)) || g.Header.Get("ETag") != etagOf(c01EarlierBody) || cl != int64(len(c01EarlierBody)) || g.Header.Get("X-Amz-Meta-Earlier") != "yes" || g.Header.Get("Content-Type") != "text/earlier" {
				fail("earlier-object-changed", "the object %q, acknowledged before this upload, now answers %s %d with %d body bytes, Content-Length %d, ETag %s, X-Amz-Meta-Earlier %q, Content-Type %q; it was acknowledged with %d bytes, ETag %s", c01EarlierKey, m, g.Status, len(g.Body), cl, g.Header.Get("ETag"), g.Header.Get("X-Amz-Meta-Earlier"), g.Header.Get("Content-Type"), len(c01EarlierBody), etagOf(c01EarlierBody))
				break
			}
		}
	}
	return ds
}

func httpCanon(k string) string {
	// net/textproto canonical form for the header names the generator produces
	parts := strings.Split(strings.ToLower(k), "-")
	for i, p := range parts {
		if p != "" {
			parts[i] = strings.ToUpper(p[:1]) + p[1:]
		}
	}
	return strings.Join(parts, "-")
}

// ---- generators --------------------------------------------------------------------

var c01SegGen = rapid.OneOf(
	rapid.StringMatching(`[a-zA-Z0-9]{1,8}`),
	rapid.StringMatching(`[a-z]{0,3}[ +%?#&="'!*();:@$,\[\]{}|^~]{1,3}[a-z]{0,3}`),
	rapid.SampledFrom([]string{"é", "日本語", "😀x", "a.b", ".hidden", "x..y", "trailing.", "UPPER", "%41", "%2F", "a+b", "a b", "~tilde", "-dash", "_u"}),
	rapid.StringOfN(rapid.RuneFrom(nil, unicode.L, unicode.N, unicode.P, unicode.Sm, unicode.So), 1, 6, -1),
)

func c01GenKey(rt *rapid.T) string {
	switch rapid.IntRange(0, 19).Draw(rt, "keyclass") {
	case 0:
		return key1024
	case 1:
		return strings.Repeat("k", rapid.IntRange(200, 255).Draw(rt, "klen"))
	}
	n := rapid.IntRange(1, 5).Draw(rt, "segs")
	var segs []string
	for i := 0; i < n; i++ {
		s := c01SegGen.Draw(rt, "seg")
		if s == "." || s == ".." || s == "" || strings.ContainsAny(s, "/\x00") || len(s) > 255 {
			s = "seg"
		}
		segs = append(segs, s)
	}
	return strings.Join(segs, "/")
}

// key1024 is exactly 1024 bytes long with every segment <= 255 bytes.
var key1024 = strings.Repeat("a", 255) + "/" + strings.Repeat("b", 255) + "/" + strings.Repeat("c", 255) + "/" + strings.Repeat("d", 254) + "/e"

// c01CopyDest names the destination of the copy path: the key plus ".copy", unless that would
// push the last path segment over the 255 bytes a real directory entry may have (outside the file
// system backends' key domain), in which case the suffix goes in front.
func c01CopyDest(key string) string {
	last := key[strings.LastIndexByte(key, '/')+1:]
	if len(last)+len(".copy") > 255 {
		return "copy.of/" + key
	}
	return key + ".copy"
}

func fixKeyLen(k string) string {
	if len(k) > 1024 {
		k = k[:1024]
		for !utf8.ValidString(k) {
			k = k[:len(k)-1]
		}
		k = strings.TrimRight(k, "/")
	}
	return k
}

func c01GenMeta(rt *rapid.T) [][2]string {
	var m [][2]string
	n := rapid.IntRange(0, 5).Draw(rt, "nmeta")
	seen := map[string]bool{}
	valGen := rapid.OneOf(
		rapid.StringMatching(`[!-~]([ -~]{0,40}[!-~])?`),
		rapid.SampledFrom([]string{"päivää", "値", "a  b", "x;y=z", `"quoted"`, "100%", "a,b", "", ""}), // a header may be sent with an empty value
		// header values are bytes (RFC 7230 obs-text): Latin-1 text and other byte strings that are not UTF-8
		rapid.SampledFrom([]string{`caf\xe9`, `\xff\xfe\x80`, `na\xefve \xc3`, `\xe4\xf6\xfc`}), // expanded by c01MetaBytes
	)
	for i := 0; i < n; i++ {
		name := "X-Amz-Meta-" + rapid.StringMatching(`[a-z][a-z0-9-]{0,10}[a-z0-9]`).Draw(rt, "mname")
		if seen[strings.ToLower(name)] {
			continue
		}
		seen[strings.ToLower(name)] = true
		m = append(m, [2]string{name, valGen.Draw(rt, "mval")})
	}
	if rapid.Bool().Draw(rt, "ct") {
		m = append(m, [2]string{"Content-Type", rapid.SampledFrom([]string{"text/plain; charset=utf-8", "application/octet-stream", "image/png", "x/y", "application/xml", "multipart/form-data; boundary=x", "binary/octet-stream", "text/html"}).Draw(rt, "ctv")})
	}
	if rapid.IntRange(0, 3).Draw(rt, "ce") == 0 {
		m = append(m, [2]string{"Content-Encoding", rapid.SampledFrom([]string{"gzip", "identity", "br", "deflate", "compress", "deflate, gzip", "zstd", "x-gzip", "GZIP", "aws", "chunked"}).Draw(rt, "cev")})
	}
	if rapid.IntRange(0, 3).Draw(rt, "cd") == 0 {
		m = append(m, [2]string{"Content-Disposition", rapid.SampledFrom([]string{`attachment; filename="a b.txt"`, "inline", `attachment; filename*=UTF-8''na%C3%AFve.txt`, "form-data; name=x"}).Draw(rt, "cdv")})
	}
	return m
}

func c01GenBody(rt *rapid.T, big bool) bodySpec {
	switch rapid.IntRange(0, 9).Draw(rt, "bodyclass") {
	case 0:
		return bodySpec{}
	case 1, 2, 3:
		return bodySpec{Lit: rapid.SliceOfN(rapid.Byte(), 1, 64).Draw(rt, "lit")}
	case 4, 5:
		return bodySpec{N: rapid.SampledFrom([]int{1, 4095, 4096, 4097, 32767, 32768, 32769, 65536}).Draw(rt, "n"), Seed: rapid.Uint64Range(0, 1000).Draw(rt, "seed")}
	case 6:
		if big {
			return bodySpec{N: rapid.IntRange(1<<20, 5<<20).Draw(rt, "n"), Seed: rapid.Uint64Range(0, 1000).Draw(rt, "seed")}
		}
		return bodySpec{N: rapid.IntRange(1, 200000).Draw(rt, "n"), Seed: rapid.Uint64Range(0, 1000).Draw(rt, "seed")}
	default:
		return bodySpec{N: rapid.IntRange(1, 9000).Draw(rt, "n"), Seed: rapid.Uint64Range(0, 1000).Draw(rt, "seed")}
	}
}

func genFrag(rt *rapid.T, n int) s3x.Frag {
	f := s3x.Frag{}
	switch rapid.IntRange(0, 5).Draw(rt, "frag") {
	case 0, 1:
		f.Mode = "whole"
	case 2:
		if n <= 5000 {
			f.Mode = "byte"
		} else {
			f.Mode, f.N = "n", rapid.IntRange(1, 4096).Draw(rt, "fn")
		}
	case 3:
		f.Mode = "half"
	case 4:
		f.Mode = "splits"
		k := rapid.IntRange(1, 6).Draw(rt, "nsplits")
		for i := 0; i < k && n > 1; i++ {
			f.Splits = append(f.Splits, rapid.IntRange(1, n-1).Draw(rt, "split"))
		}
	case 5:
		f.Mode, f.N = "n", rapid.SampledFrom([]int{1, 7, 512, 4095, 4096, 4097, 32768}).Draw(rt, "fn")
	}
	f.EOFWithData = rapid.Bool().Draw(rt, "eofdata")
	return f
}

// c01CopyFromUnreadable: an upload by copy is acknowledged only for a source that can be read. With
// the source deleted in a versioned bucket (its newest entry is a delete marker), or deleted
// outright, the copy is refused and what was acknowledged for the destination still comes back.
func c01CopyFromUnreadable(k backends.Kind, versioned, viaAPI bool) (ds []disc) {
	st := backends.Must(k, backends.Options{})
	defer st.Close()
	if err := ensureBucket(st, "bk0"); err != nil {
		panic(err)
	}
	how := fmt.Sprintf("backend=%s versioned=%v api=%v: ", k, versioned, viaAPI)
	if versioned {
		if r := s3x.Do(st.Handler, &s3x.Req{Method: "PUT", Path: "/bk0", Query: s3x.Q("versioning", s3x.Bare), Body: []byte(`<VersioningConfiguration><Status>Enabled</Status></VersioningConfiguration>`)}); r.Status != 200 {
			panic("harness: " + r.String())
		}
	}
	kept := []byte("the acknowledged bytes of the destination")
	for _, step := range [][2]string{{"src", "bytes of the source, deleted before the copy"}, {"dst", string(kept)}} {
		if r := put(st, "bk0", step[0], []byte(step[1]), "X-Amz-Meta-Which", step[0]); r.Status != 200 {
			panic("harness: " + r.String())
		}
	}
	if r := del(st, "bk0", "src"); r.Status != 204 {
		panic("harness: " + r.String())
	}
	if g := get(st, "bk0", "src"); g.Status != 404 {
		return dsc("deleted-source-readable", how+"GET of the deleted source answered %s", g)
	}
	acked := false
	if viaAPI {
		func() {
			defer func() {
				if p := recover(); p != nil {
					ds = append(ds, dsc("panic", how+"Backend.CopyObject: %v", p)...)
				}
			}()
			_, err := st.Backend.CopyObject("bk0", "src", "bk0", "dst", nil)
			acked = err == nil
		}()
	} else {
		r := s3x.Do(st.Handler, &s3x.Req{Method: "PUT", Path: "/bk0/dst", Header: s3x.H("X-Amz-Copy-Source", "/bk0/src")})
		if r.Panic != "" {
			return dsc("panic", how+"copy: %s at %s", r.Panic, r.PanicSite)
		}
		acked = r.Status < 300
	}
	if acked {
		ds = append(ds, dsc("copy-of-unreadable-source-acknowledged", how+"a copy was acknowledged whose source key answers 404 to a GET: there are no bytes it could have uploaded")...)
	}
	if g := get(st, "bk0", "dst"); g.Status != 200 || !bytes.Equal(g.Body, kept) || g.Header.Get("ETag") != etagOf(kept) || g.Header.Get("X-Amz-Meta-Which") != "dst" {
		ds = append(ds, dsc("acknowledged-upload-lost", how+"after the copy from a deleted source (acknowledged=%v) the destination reads %d with %d bytes, ETag %s, X-Amz-Meta-Which %q; acknowledged were %d bytes, ETag %s", acked, g.Status, len(g.Body), g.Header.Get("ETag"), g.Header.Get("X-Amz-Meta-Which"), len(kept), etagOf(kept))...)
	}
	return ds
}

func c01Replay(check string, raw json.RawMessage) ([]disc, error) {
	if check == "copy-from-unreadable" {
		var cs c01Case
		if err := json.Unmarshal(raw, &cs); err != nil {
			return nil, err
		}
		return c01CopyFromUnreadable(cs.Backend, cs.Overwrite, cs.Path == "api"), nil
	}
	if check == "real-server" {
		var cs c01Case
		if err := json.Unmarshal(raw, &cs); err != nil {
			return nil, err
		}
		ds, _ := c01RealServer(cs.Backend)
		return ds, nil
	}
	var cs c01Case
	if err := json.Unmarshal(raw, &cs); err != nil {
		return nil, err
	}
	defer c01CloseStacks()
	return c01Check(cs), nil
}

func TestC01(t *testing.T) {
	runProp(t, propDef{
		ID:    "C01",
		Level: "exploration",
		Rule: "cases = (backend, integrity on/off, key, body, metadata set, upload path in {PUT, PUT+Content-MD5, form POST, PUT+copy, Backend.PutObject}, overwrite?, request-body fragmentation); " +
			"rapid-generated keys (alnum / URL-escaping / UTF-8 / dotted segments, up to 1024 bytes), bodies 0..200 kB quick (multi-MiB thorough) of arbitrary bytes, 0-5 x-amz-meta headers + Content-Type/-Encoding/-Disposition; " +
			"every case is read back by GET, HEAD, listing entry, Backend.GetObject and Backend.HeadObject; non-trivial = non-empty body, or key needing escaping, or >=1 metadata header, or non-PUT path; distinct by the full case",
		Replay: c01Replay,
		Run:    c01Run,
	})
}

// c01RealServer runs the handler behind a real net/http server (the in-process recorder of s3x does
// not reproduce what net/http adds to a response, e.g. a Content-Type guessed from the body) and
// compares the entity headers of GET and HEAD.
func c01RealServer(k backends.Kind) (ds []disc, n int) {
	st := backends.Must(k, backends.Options{})
	defer st.Close()
	if err := ensureBucket(st, "bk0"); err != nil {
		panic(err)
	}
	srv := httptest.NewServer(st.Handler)
	defer srv.Close()
	do := func(m, p string, body []byte, hdr [][2]string) (*http.Response, []byte, error) {
		rq, err := http.NewRequest(m, srv.URL+p, bytes.NewReader(body))
		if err != nil {
			return nil, nil, err
		}
		for _, kv := range hdr {
			rq.Header.Set(kv[0], kv[1])
		}
		r, err := http.DefaultClient.Do(rq)
		if err != nil {
			return nil, nil, err
		}
		defer r.Body.Close()
		b, err := io.ReadAll(r.Body)
		return r, b, err
	}
	bodies := map[string][]byte{"html": []byte("<html><body>hi</body></html>"), "text": []byte("plain text\n"), "png": append([]byte("\x89PNG\r\n\x1a\n"), make([]byte, 40)...), "empty": nil,
		"json": []byte(`{"a":1}`), "gzip": {0x1f, 0x8b, 8, 0, 0, 0, 0, 0}, "big": bytes.Repeat([]byte("<?xml version=\"1.0\"?><a/>"), 3000)}
	var names []string
	for name := range bodies {
		names = append(names, name)
	}
	sort.Strings(names)
	for _, name := range names {
		for vi, hdr := range [][][2]string{nil, {{"Content-Type", "text/x-mine"}}, {{"Content-Encoding", "identity"}, {"X-Amz-Meta-K", "v"}}, {{"Content-Type", ""}}} {
			key := fmt.Sprintf("real/%s-%d", name, vi)
			body := bodies[name]
			n++
			if r, _, err := do("PUT", "/bk0/"+key, body, hdr); err != nil || r.StatusCode != 200 {
				ds = append(ds, dsc("put-refused", "backend=%s real server: PUT %s: %v %v", k, key, r, err)...)
				continue
			}
			g, gb, err1 := do("GET", "/bk0/"+key, nil, nil)
			h, hb, err2 := do("HEAD", "/bk0/"+key, nil, nil)
			if err1 != nil || err2 != nil || g.StatusCode != 200 || h.StatusCode != 200 {
				ds = append(ds, dsc("read-failed", "backend=%s real server: GET/HEAD %s: %v %v", k, key, err1, err2)...)
				continue
			}
			if !bytes.Equal(gb, body) || len(hb) != 0 {
				ds = append(ds, dsc("body", "backend=%s real server: GET %s returned %d bytes for %d uploaded, HEAD %d bytes", k, key, len(gb), len(body), len(hb))...)
			}
			for _, eh := range []string{"Content-Type", "Content-Length", "Content-Encoding", "Content-Disposition", "Etag", "Last-Modified", "X-Amz-Meta-K"} {
				if gv, hv := g.Header.Values(eh), h.Header.Values(eh); fmt.Sprint(gv) != fmt.Sprint(hv) {
					ds = append(ds, dsc("head-differs-from-get", "backend=%s real server: object %s (PUT headers %v): GET reports %s %q, HEAD reports %q", k, key, hdr, eh, gv, hv)...)
				}
			}
			for _, kv := range hdr {
				if got := g.Header.Get(kv[0]); got != kv[1] {
					ds = append(ds, dsc("metadata", "backend=%s real server: object %s: GET header %s = %q, sent %q", k, key, kv[0], got, kv[1])...)
				}
			}
		}
	}
	return ds, n
}

func c01Run(t *testing.T, c *evid.Collector) {
	defer c01CloseStacks()
	kinds := kindsFromEnv(backends.All)
	if evid.Shard() == 0 {
		for _, k := range kinds {
			ds, n := c01RealServer(k)
			cs := c01Case{Backend: k, Key: "(real net/http server)", Path: "real-server"}
			c.Case(evid.FP("real-server", string(k)), true, func() interface{} { return cs }, "backend:"+string(k), "src:real-server", fmt.Sprintf("objects:%d", n))
			report(c, "real-server", ds, cs)
		}
	}
	if evid.Shard() == 0 {
		for _, k := range kinds {
			for _, versioned := range []bool{false, true} {
				if versioned && k != backends.Mem {
					continue
				}
				for _, api := range []bool{false, true} {
					// (Overwrite doubles as "versioned" in the stored case)
					cs := c01Case{Backend: k, Key: "(copy from a deleted source)", Path: map[bool]string{false: "copy", true: "api"}[api], Overwrite: versioned}
					c.Case(evid.FP("copy-from-unreadable", string(k), fmt.Sprint(versioned, api)), true, func() interface{} { return cs }, "backend:"+string(k), "src:copy-from-unreadable")
					report(c, "copy-from-unreadable", c01CopyFromUnreadable(k, versioned, api), cs)
				}
			}
		}
	}
	one := func(cs c01Case, src string) bool {
		klen := len(cs.Key)
		if cs.Path == "copy" && !cs.CopySelf {
			klen = len(c01CopyDest(cs.Key))
		}
		if cs.Backend.IsDir() && klen+33 > 255 && evid.Open("KF-C01-fs-longkey") {
			// excluded by construction: the metadata file name (flattened key + "-" + 32 hex
			// digits) exceeds NAME_MAX on a real directory
			c.Excluded("KF-C01-fs-longkey")
			return false
		}
		ds := c01Check(cs)
		body := cs.Body.bytes()
		labels := []string{"backend:" + string(cs.Backend), "path:" + cs.Path, "src:" + src}
		if len(body) == 0 {
			labels = append(labels, "empty-body")
		}
		if len(body) >= 1<<20 {
			labels = append(labels, "body>=1MiB")
		}
		if len(cs.Key) == 1024 {
			labels = append(labels, "key-1024-bytes")
		}
		esc := s3x.EscapePath(cs.Key) != cs.Key
		if esc {
			labels = append(labels, "key-needs-escaping")
		}
		if len(cs.Meta) > 0 {
			labels = append(labels, "has-metadata")
		}
		if cs.Overwrite {
			labels = append(labels, "overwrite")
		}
		if strings.ContainsAny(cs.Key, "/\\") {
			labels = append(labels, "with-flattening-sibling")
		}
		if cs.Frag.Mode != "" && cs.Frag.Mode != "whole" {
			labels = append(labels, "fragmented-body")
		}
		nt := len(body) > 0 || esc || len(cs.Meta) > 0 || cs.Path != "put"
		c.Case(evid.FP(mustJSON(cs)), nt, func() interface{} {
			s := cs
			if len(s.Body.Lit) > 64 {
				s.Body.Lit = s.Body.Lit[:64]
			}
			return s
		}, labels...)
		return report(c, "roundtrip", ds, cs)
	}
	// fixed boundary cases on every configuration (ignore the seed)
	if evid.Shard() == 0 {
		k1024 := key1024
		for _, k := range kinds {
			for _, ioff := range []bool{false, true} {
				for _, p := range []string{"put", "put-md5", "post", "copy", "api"} {
					one(c01Case{Backend: k, IntegrityOff: ioff, Key: "plain", Body: bodySpec{}, Path: p}, "fixed")
					one(c01Case{Backend: k, IntegrityOff: ioff, Key: "empty-metadata-values", Body: bodySpec{Lit: []byte("x")}, Path: p, Overwrite: true,
						Meta: [][2]string{{"X-Amz-Meta-Note", ""}, {"X-Amz-Meta-Kept", "k"}, {"Content-Encoding", ""}}}, "fixed")
					one(c01Case{Backend: k, IntegrityOff: ioff, Key: "dir/was a copy once", Body: bodySpec{Lit: []byte("a completely different upload, longer than the one it replaces")}, Path: p, Overwrite: true, PrevByCopy: true,
						Meta: [][2]string{{"X-Amz-Meta-Kept", "k"}}}, "fixed")
					one(c01Case{Backend: k, IntegrityOff: ioff, Key: "latin1-metadata", Body: bodySpec{Lit: []byte("x")}, Path: p, Meta: [][2]string{{"X-Amz-Meta-Name", `caf\xe9`}, {"Content-Disposition", `attachment; filename=\xe4.txt`}}}, "fixed")
					one(c01Case{Backend: k, IntegrityOff: ioff, Key: "dir/sub dir/ünï+%/obj?#.txt", Body: bodySpec{Lit: []byte("hello\x00\xff world")}, Path: p,
						Meta: [][2]string{{"X-Amz-Meta-A", "1"}, {"Content-Type", "text/x"}, {"Content-Encoding", "gzip"}, {"Content-Disposition", "inline"}}, Overwrite: true}, "fixed")
				}
				one(c01Case{Backend: k, IntegrityOff: ioff, Key: k1024, Body: bodySpec{N: 100, Seed: 1}, Path: "put"}, "fixed")
				one(c01Case{Backend: k, IntegrityOff: ioff, Key: "big", Body: bodySpec{N: 1<<20 + 17, Seed: 7}, Path: "put-md5", Frag: s3x.Frag{Mode: "n", N: 4097}}, "fixed")
				if !ioff {
					// beyond any plausible buffering threshold, through every path that moves bytes inside the server
					big := bodySpec{N: evid.Scale(1<<20+4099, 5<<20+3), Seed: 8}
					one(c01Case{Backend: k, Key: "dir/big copy", Body: big, Path: "copy", Meta: [][2]string{{"X-Amz-Meta-A", "1"}}}, "fixed")
					one(c01Case{Backend: k, Key: "dir/big self", Body: big, Path: "copy", CopySelf: true, Meta: [][2]string{{"X-Amz-Meta-A", "1"}}, Overwrite: true}, "fixed")
					one(c01Case{Backend: k, Key: "dir/big post", Body: big, Path: "post", Frag: s3x.Frag{Mode: "n", N: 65537}}, "fixed")
					one(c01Case{Backend: k, Key: "dir/big api", Body: big, Path: "api", Overwrite: true}, "fixed")
				}
			}
		}
	}
	rapidRun(t, "random", evid.Scale(1500, 20000), func(rt *rapid.T) {
		k := rapid.SampledFrom(kinds).Draw(rt, "backend")
		cs := c01Case{Backend: k, IntegrityOff: rapid.IntRange(0, 2).Draw(rt, "ioff") == 0}
		cs.Key = fixKeyLen(c01GenKey(rt))
		cs.Body = c01GenBody(rt, evid.Thorough())
		cs.Meta = c01GenMeta(rt)
		cs.Path = rapid.SampledFrom([]string{"put", "put", "put-md5", "post", "copy", "api"}).Draw(rt, "path")
		cs.Overwrite = rapid.Bool().Draw(rt, "overwrite")
		cs.PrevByCopy = cs.Overwrite && rapid.IntRange(0, 3).Draw(rt, "prevbycopy") == 0
		cs.Frag = genFrag(rt, len(cs.Body.bytes()))
		if cs.Path == "copy" {
			cs.CopySelf = rapid.IntRange(0, 3).Draw(rt, "copyself") == 0
		}
		if cs.Path == "copy" && !cs.CopySelf && len(c01CopyDest(cs.Key)) > 1024 {
			cs.Path = "put"
		}
		if one(cs, "random") {
			rt.Fatalf("C01 violated")
		}
	})
}

//go:build verif

package props

import (
	"bytes"
	"encoding/json"
	"fmt"
	"mime/multipart"
	"regexp"
	"sort"
	"strings"
	"sync"
	"testing"
	"time"
	"unicode/utf8"

	"verif/harness/backends"
	"verif/harness/evid"
	"verif/harness/oracle"
	"verif/harness/prog"
	"verif/harness/s3x"

	"pgregory.net/rapid"
)

// C17 — bucket names are accepted exactly when they satisfy the documented rules.

type c17Case struct {
	Backend backends.Kind `json:"backend"`
	Name    string        `json:"name"`
}

var c17Kinds = []backends.Kind{backends.Mem, backends.Bolt, backends.MultiMem}

type c17Env struct {
	st      *backends.Stack
	created map[string]bool
}

func newC17Env(k backends.Kind) *c17Env {
	return &c17Env{st: backends.Must(k, backends.Options{}), created: map[string]bool{}}
}

func (e *c17Env) listed() ([]string, *s3x.Resp) {
	r := s3x.Do(e.st.Handler, &s3x.Req{Method: "GET", Path: "/"})
	if r.Status != 200 {
		return nil, r
	}
	var d s3x.BucketsDoc
	if err := r.XML(&d); err != nil {
		return nil, r
	}
	n := d.Names()
	sort.Strings(n)
	return n, r
}

func (e *c17Env) checkList() []disc {
	got, r := e.listed()
	if got == nil && r.Status != 200 {
		return dsc("listbuckets-failed", "backend=%s ListBuckets answered %s", e.st.Kind, r)
	}
	var want []string
	for n := range e.created {
		want = append(want, n)
	}
	sort.Strings(want)
	if !eqStrings(got, want) {
		var extra, missing []string
		gs := map[string]bool{}
		for _, g := range got {
			gs[g] = true
			if !e.created[g] {
				extra = append(extra, g)
			}
		}
		for _, w := range want {
			if !gs[w] {
				missing = append(missing, w)
			}
		}
		return dsc("listbuckets-mismatch", "backend=%s ListBuckets lists %d names, %d were created; listed but never created: %q; created but not listed: %q", e.st.Kind, len(got), len(want), extra, missing)
	}
	return nil
}

// create tries to create the bucket and judges the answer.
func (e *c17Env) create(name string) (ds []disc, verdict oracle.NameVerdict, accepted bool) {
	return e.createVia(name, &s3x.Req{Method: "PUT", Path: "/" + name}, "")
}

// c17HostLabel: names that can be sent as the bucket label of a Host header
var c17HostLabel = regexp.MustCompile(`^[A-Za-z0-9_-]{1,63}$`)

// createHost creates the bucket virtual-host style on a server with the host base s3.test.
func (e *c17Env) createHost(name string) (ds []disc, verdict oracle.NameVerdict, accepted bool) {
	return e.createVia(name, &s3x.Req{Method: "PUT", Host: name + ".s3.test", Path: "/"}, " (Host "+name+".s3.test, PUT /)")
}

func (e *c17Env) createVia(name string, rq *s3x.Req, how string) (ds []disc, verdict oracle.NameVerdict, accepted bool) {
	verdict = oracle.BucketName(name)
	r := s3x.Do(e.st.Handler, rq)
	fail := func(kind, f string, a ...interface{}) {
		ds = append(ds, disc{Kind: kind, Detail: fmt.Sprintf("backend=%s name=%q%s: ", e.st.Kind, name, how) + fmt.Sprintf(f, a...)})
	}
	if r.Panic != "" {
		fail("panic", "%s at %s", r.Panic, r.PanicSite)
		return
	}
	if e.created[name] {
		if r.Status != 409 {
			fail("recreate", "second creation answered %s", r)
		}
		return ds, verdict, true
	}
	switch {
	case r.Status == 200:
		accepted = true
		e.created[name] = true
		if verdict == oracle.NameInvalid {
			fail("invalid-name-accepted", "the rules refuse this name but the bucket was created")
		}
	case r.Status == 400 && r.ErrCode() == "InvalidBucketName":
		if verdict == oracle.NameValid {
			fail("valid-name-refused", "the rules accept this name but it was refused with InvalidBucketName")
		}
	default:
		fail("unexpected-answer", "create answered %s", r)
	}
	return
}

func c17NearBoundary(name string) bool {
	v := oracle.BucketName(name)
	alpha := "az09-.A_"
	// one substitution or one deletion/insertion flips the verdict
	for i := 0; i <= len(name); i++ {
		for j := 0; j < len(alpha); j++ {
			if i < len(name) {
				if m := name[:i] + string(alpha[j]) + name[i+1:]; oracle.BucketName(m) != v {
					return true
				}
			}
			if m := name[:i] + string(alpha[j]) + name[i:]; oracle.BucketName(m) != v {
				return true
			}
		}
		if i < len(name) {
			if m := name[:i] + name[i+1:]; oracle.BucketName(m) != v {
				return true
			}
		}
	}
	return false
}

// c17Deleted: a bucket that was created and deleted again is not a created bucket any more: it is
// not listed, requests addressed to it do not bring it back, and its (valid, free) name can be
// created again. spec = "<mode>:<use>" with mode plain | force and use none | head | object | object-left.
func c17Deleted(e *c17Env, spec string) (ds []disc) {
	k := e.st.Kind
	f := strings.SplitN(spec, ":", 2)
	mode, use := f[0], f[1]
	name := "gone-" + mode + "-" + use
	fail := func(kind, format string, a ...interface{}) {
		ds = append(ds, dsc(kind, "backend=%s deleted-bucket scenario %s: "+format, append([]interface{}{k, spec}, a...)...)...)
	}
	cd, _, acc := e.create(name)
	ds = append(ds, cd...)
	if !acc {
		return
	}
	var pending [2]string // upload ID and part ETag of an upload left pending
	switch use {
	case "head":
		s3x.Do(e.st.Handler, &s3x.Req{Method: "HEAD", Path: "/" + name})
	case "upload":
		// a multipart upload is pending when the bucket goes (the backend holds nothing for it yet)
		x := s3x.Do(e.st.Handler, &s3x.Req{Method: "POST", Path: "/" + name + "/d/mp", Query: s3x.Q("uploads", s3x.Bare)})
		var d s3x.InitiateDoc
		if x.Status == 200 && x.XML(&d) == nil {
			pr := s3x.Do(e.st.Handler, &s3x.Req{Method: "PUT", Path: "/" + name + "/d/mp", Query: s3x.Q("partNumber", "1", "uploadId", d.UploadId), Body: []byte("part one")})
			pending = [2]string{d.UploadId, pr.Header.Get("ETag")}
		}
	case "object", "object-left":
		put(e.st, name, "d/obj", []byte("x"))
		get(e.st, name, "d/obj")
		if use == "object" {
			del(e.st, name, "d/obj")
		}
	}
	rq := &s3x.Req{Method: "DELETE", Path: "/" + name}
	if mode == "force" {
		rq.Header = s3x.H("x-minio-force-delete", "true")
	}
	r := s3x.Do(e.st.Handler, rq)
	if r.Panic != "" {
		fail("panic", "delete bucket: %s at %s", r.Panic, r.PanicSite)
		return
	}
	if use == "object-left" && mode == "plain" {
		// not empty: the bucket stays
		if r.Status/100 == 2 {
			fail("nonempty-bucket-deleted", "DELETE of the bucket holding d/obj answered %s", r)
		}
		return append(ds, e.checkList()...)
	}
	if r.Status/100 != 2 {
		if mode != "force" {
			fail("delete-refused", "DELETE of the empty bucket answered %s", r)
			return
		}
		// a forced delete is an extension not every backend has, and its answer is not what the
		// statement is about: whether the bucket is gone is read off the bucket listing
		names, _ := e.listed()
		if contains(names, name) {
			return append(ds, e.checkList()...)
		}
	}
	delete(e.created, name)
	ds = append(ds, e.checkList()...)
	for _, probe := range [][2]string{{"HEAD", "/" + name}, {"GET", "/" + name}, {"PUT", "/" + name + "/obj"}, {"PUT", "/" + name + "/d/obj"}, {"POST", "/" + name + "/mp?uploads"}, {"GET", "/" + name + "/d/obj"}, {"DELETE", "/" + name + "/d/obj"}} {
		pr := s3x.Do(e.st.Handler, &s3x.Req{Method: probe[0], RawTarget: probe[1], Body: []byte("x")})
		if pr.Panic != "" {
			fail("panic", "%s %s: %s at %s", probe[0], probe[1], pr.Panic, pr.PanicSite)
		}
		if (probe[0] == "HEAD" || probe[0] == "GET") && pr.Status == 200 {
			fail("deleted-bucket-answers", "%s %s answers 200 after the bucket was deleted", probe[0], probe[1])
		}
		for _, d := range e.checkList() {
			d.Detail = fmt.Sprintf("after %s %s (scenario %s): ", probe[0], probe[1], spec) + d.Detail
			ds = append(ds, d)
		}
	}
	if pending[0] != "" {
		// finishing the upload that outlived its bucket must not bring the bucket back
		x := "<CompleteMultipartUpload><Part><PartNumber>1</PartNumber><ETag>" + xmlEsc(pending[1]) + "</ETag></Part></CompleteMultipartUpload>"
		pr := s3x.Do(e.st.Handler, &s3x.Req{Method: "POST", Path: "/" + name + "/d/mp", Query: s3x.Q("uploadId", pending[0]), Body: []byte(x)})
		if pr.Panic != "" {
			fail("panic", "complete the upload of the deleted bucket: %s at %s", pr.Panic, pr.PanicSite)
		}
		for _, d := range e.checkList() {
			d.Detail = fmt.Sprintf("after completing (answer %d) the multipart upload that was pending when the bucket was deleted (scenario %s): ", pr.Status, spec) + d.Detail
			ds = append(ds, d)
		}
		if h := s3x.Do(e.st.Handler, &s3x.Req{Method: "HEAD", Path: "/" + name}); h.Status == 200 {
			fail("deleted-bucket-answers", "HEAD /%s answers 200 after the pending upload of the deleted bucket was completed", name)
		}
	}
	// the name is valid and free again
	cd, _, acc = e.create(name)
	ds = append(ds, cd...)
	if !acc && len(cd) == 0 {
		fail("free-name-refused", "creating the deleted bucket's name again was refused")
	}
	if acc {
		if g := get(e.st, name, "d/obj"); g.Status == 200 {
			fail("deleted-bucket-contents-back", "the re-created bucket serves d/obj of the deleted one")
		}
	}
	return append(ds, e.checkList()...)
}

// c17InFlight: while the body of an upload into a created bucket is still arriving, the bucket
// listing is what it was (whatever a backend stages for the upload is not a bucket). via = put |
// part | post. reached reports whether the listing could be taken while the upload was held.
func c17InFlight(e *c17Env, via string) (ds []disc, reached bool) {
	k := e.st.Kind
	name := "uploads-in-flight"
	if !e.created[name] {
		cd, _, acc := e.create(name)
		if !acc {
			return append(cd, dsc("harness", "backend=%s: cannot create %s", k, name)...), false
		}
	}
	body := prog.Pattern(50000, 17)
	rq := &s3x.Req{Method: "PUT", Path: "/" + name + "/dir/in-flight-" + via, Body: body}
	switch via {
	case "part":
		x := s3x.Do(e.st.Handler, &s3x.Req{Method: "POST", Path: "/" + name + "/dir/in-flight-part", Query: s3x.Q("uploads", s3x.Bare)})
		var d s3x.InitiateDoc
		if x.Status != 200 || x.XML(&d) != nil {
			return dsc("harness", "backend=%s: initiate answered %s", k, x), false
		}
		rq.Query = s3x.Q("partNumber", "1", "uploadId", d.UploadId)
	case "post":
		var buf bytes.Buffer
		mw := multipart.NewWriter(&buf)
		mw.WriteField("key", "dir/in-flight-post")
		fw, _ := mw.CreateFormFile("file", "upload.bin")
		fw.Write(body)
		mw.Close()
		rq = &s3x.Req{Method: "POST", Path: "/" + name, Header: s3x.H("Content-Type", mw.FormDataContentType()), Body: buf.Bytes()}
	}
	at, release := make(chan struct{}), make(chan struct{})
	var once sync.Once
	rq.Frag = s3x.Frag{Mode: "n", N: 4096}
	rq.Gate = func(off int) {
		if off >= 25000 {
			once.Do(func() { close(at); <-release })
		}
	}
	done := make(chan *s3x.Resp, 1)
	go func() { done <- s3x.DoWith(e.st.Handler, rq, s3x.DoOpts{Timeout: 30 * time.Second}) }()
	var up *s3x.Resp
	select {
	case <-at:
		reached = true
	case up = <-done:
	case <-time.After(20 * time.Second):
	}
	if reached {
		seen := make(chan []disc, 1)
		go func() {
			d := e.checkList()
			names, _ := e.listed()
			for _, n := range names {
				if !e.created[n] {
					if h := s3x.Do(e.st.Handler, &s3x.Req{Method: "HEAD", Path: "/" + n}); h.Status == 200 {
						d = append(d, dsc("phantom-bucket-answers", "backend=%s: HEAD /%s answers 200 although nobody created that bucket", k, n)...)
					}
				}
			}
			seen <- d
		}()
		select {
		case d := <-seen:
			for i := range d {
				d[i].Detail = fmt.Sprintf("while the body of an upload (%s) into %s is arriving: ", via, name) + d[i].Detail
			}
			ds = append(ds, d...)
		case <-time.After(2 * time.Second):
			reached = false // the listing waits for the upload: nothing to see in between
			defer func() { <-seen }()
		}
	}
	close(release)
	if up == nil {
		select {
		case up = <-done:
		case <-time.After(40 * time.Second):
			return append(ds, dsc("inconclusive:upload-stuck", "backend=%s: the held upload (%s) did not finish", k, via)...), reached
		}
	}
	if up.Panic != "" {
		ds = append(ds, dsc("panic", "backend=%s: upload (%s): %s at %s", k, via, up.Panic, up.PanicSite)...)
	}
	return append(ds, e.checkList()...), reached
}

var c17DeletedSpecs = []string{"plain:upload", "force:upload", "plain:none", "plain:head", "plain:object", "plain:object-left", "force:none", "force:head", "force:object", "force:object-left"}

func c17Replay(check string, raw json.RawMessage) ([]disc, error) {
	var cs c17Case
	if err := json.Unmarshal(raw, &cs); err != nil {
		return nil, err
	}
	e := newC17Env(cs.Backend)
	defer e.st.Close()
	if strings.HasPrefix(cs.Name, "host-style ") {
		e.st.Close()
		e = &c17Env{st: backends.Must(backends.Mem, backends.Options{HostBases: []string{"s3.test"}}), created: map[string]bool{}}
		defer e.st.Close()
		ds, _, _ := e.createHost(strings.TrimPrefix(cs.Name, "host-style "))
		return append(ds, e.checkList()...), nil
	}
	if strings.HasPrefix(cs.Name, "auto-bucket ") {
		e.st.Close()
		e = &c17Env{st: backends.Must(cs.Backend, backends.Options{AutoBucket: true}), created: map[string]bool{}}
		defer e.st.Close()
		nm := strings.TrimPrefix(cs.Name, "auto-bucket ")
		ds, _, _ := e.createVia(nm, &s3x.Req{Method: "PUT", Path: "/" + nm}, " (server with the auto-bucket option)")
		return append(ds, e.checkList()...), nil
	}
	if strings.HasPrefix(cs.Name, "in-flight ") {
		ds, _ := c17InFlight(e, strings.TrimPrefix(cs.Name, "in-flight "))
		return ds, nil
	}
	if strings.HasPrefix(cs.Name, "deleted-bucket ") {
		return c17Deleted(e, strings.TrimPrefix(cs.Name, "deleted-bucket ")), nil
	}
	if strings.HasPrefix(cs.Name, "API ") {
		e.create("objects-go-here")
		func() {
			defer func() { recover() }()
			e.st.Backend.PutObject("objects-go-here", strings.TrimPrefix(cs.Name, "API "), map[string]string{}, strings.NewReader("x"), 1)
		}()
		return e.checkList(), nil
	}
	if strings.Contains(cs.Name, " /objects-go-here/") && !strings.Contains(cs.Name, "bytes)") {
		e.create("objects-go-here")
	}
	if f := strings.SplitN(cs.Name, " /", 2); len(f) == 2 && (f[0] == "PUT" || f[0] == "POST" || f[0] == "DELETE" || f[0] == "GET") {
		// a request that is not create-bucket (the no-create probes)
		r := s3x.Do(e.st.Handler, &s3x.Req{Method: f[0], RawTarget: "/" + f[1], Body: []byte("x")})
		var ds []disc
		if r.Panic != "" {
			ds = dsc("panic", "%s: %s at %s", cs.Name, r.Panic, r.PanicSite)
		}
		return append(ds, e.checkList()...), nil
	}
	ds, _, _ := e.create(cs.Name)
	ds = append(ds, e.checkList()...)
	return ds, nil
}

func TestC17(t *testing.T) {
	runProp(t, propDef{
		ID:    "C17",
		Level: "exploration",
		Rule: "cases = (backend in {mem, bolt, fs-multi}, bucket name) created through HTTP PUT /<name> (also as the label of a Host header, and on mem/bolt servers with the auto-bucket option); exhaustive: all strings over {a,z,0,9,-,.,A,_} up to length L (L=5 quick: 37448 names, L=6 thorough: 299592 names), " +
			"all lengths 1..70 of valid characters, dotted multi-label names with label lengths 1-4, IPv4/IPv6-looking names; rapid: random strings incl. UTF-8 and URL-reserved characters; " +
			"oracle written from the statement (not the regexp); ListBuckets must equal the set of names created (checked every 64 names and at the end, after requests other than create-bucket that spell a bucket in odd ways, after objects of 0 B to 1 MiB / a multipart upload / a copy were stored, " +
			"while the body of a put / part / form upload is still arriving, and after a bucket was deleted again (plainly or forced, used or not): it is not listed, requests to it do not bring it back, its name can be created again); non-trivial = the name is within one edit (over the alphabet) of the valid/invalid boundary; distinct by (backend, name)",
		Replay: c17Replay,
		Run:    c17Run,
	})
}

func c17Run(t *testing.T, c *evid.Collector) {
	kinds := kindsFromEnv(c17Kinds)
	envs := map[backends.Kind]*c17Env{}
	for _, k := range kinds {
		envs[k] = newC17Env(k)
		defer envs[k].st.Close()
	}
	// the same decision when the name arrives as the label of a Host header (memory backend with the
	// host base s3.test)
	hostEnv := &c17Env{st: backends.Must(backends.Mem, backends.Options{HostBases: []string{"s3.test"}}), created: map[string]bool{}}
	defer hostEnv.st.Close()
	// ... and when the server creates buckets on demand for other requests (auto-bucket option): the
	// create-bucket operation itself decides as ever (key-value backends)
	var autoEnvs []*c17Env
	for _, k := range kinds {
		if k == backends.Mem || k == backends.Bolt {
			ae := &c17Env{st: backends.Must(k, backends.Options{AutoBucket: true}), created: map[string]bool{}}
			defer ae.st.Close()
			autoEnvs = append(autoEnvs, ae)
		}
	}
	n := 0
	valid := 0
	one := func(name, src string) bool {
		bad := false
		nb := c17NearBoundary(name)
		var firstAcc *bool
		for _, k := range kinds {
			e := envs[k]
			ds, verdict, acc := e.create(name)
			if firstAcc == nil {
				a := acc
				firstAcc = &a
				if acc {
					valid++
				}
			} else if *firstAcc != acc {
				ds = append(ds, disc{Kind: "backends-differ", Detail: fmt.Sprintf("name=%q: %s accepted=%v but %s accepted=%v", name, kinds[0], *firstAcc, k, acc)})
			}
			cs := c17Case{k, name}
			labels := []string{"backend:" + string(k), "src:" + src, fmt.Sprintf("verdict:%d", verdict)}
			if acc {
				labels = append(labels, "accepted")
			}
			c.Case(evid.FP(string(k), name), nb, func() interface{} { return cs }, labels...)
			if report(c, "create", ds, cs) {
				bad = true
			}
		}
		if c17HostLabel.MatchString(name) {
			ds, verdict, acc := hostEnv.createHost(name)
			if firstAcc != nil && *firstAcc != acc {
				ds = append(ds, disc{Kind: "addressing-styles-differ", Detail: fmt.Sprintf("name=%q: created path-style accepted=%v, as a Host label accepted=%v", name, *firstAcc, acc)})
			}
			cs := c17Case{backends.Mem, "host-style " + name}
			c.Case(evid.FP("host-style", name), nb, func() interface{} { return cs }, "backend:mem", "src:"+src, "host-style", fmt.Sprintf("verdict:%d", verdict))
			if report(c, "create", ds, cs) {
				bad = true
			}
			if n%64 == 0 {
				if report(c, "listbuckets", hostEnv.checkList(), cs) {
					bad = true
				}
			}
		}
		for _, ae := range autoEnvs {
			if src == "exhaustive" && len(name) > 5 {
				break // the six-symbol strings of the thorough tier: the plain servers only
			}
			ds, verdict, acc := ae.createVia(name, &s3x.Req{Method: "PUT", Path: "/" + name}, " (server with the auto-bucket option)")
			if firstAcc != nil && *firstAcc != acc {
				ds = append(ds, disc{Kind: "options-differ", Detail: fmt.Sprintf("name=%q on %s: accepted=%v, with the auto-bucket option accepted=%v", name, ae.st.Kind, *firstAcc, acc)})
			}
			cs := c17Case{ae.st.Kind, "auto-bucket " + name}
			c.Case(evid.FP("auto-bucket", string(ae.st.Kind), name), nb, func() interface{} { return cs }, "backend:"+string(ae.st.Kind), "src:"+src, "auto-bucket", fmt.Sprintf("verdict:%d", verdict))
			if report(c, "create", ds, cs) {
				bad = true
			}
			if n%64 == 0 {
				if report(c, "listbuckets", ae.checkList(), cs) {
					bad = true
				}
			}
		}
		n++
		if n%64 == 0 {
			for _, k := range kinds {
				if report(c, "listbuckets", envs[k].checkList(), c17Case{k, name}) {
					bad = true
				}
			}
		}
		return bad
	}
	if evid.Shard() == 0 {
		L := evid.Scale(5, 6)
		alpha := "az09-.A_"
		var rec func(prefix string)
		rec = func(prefix string) {
			if prefix != "" {
				one(prefix, "exhaustive")
			}
			if len(prefix) == L {
				return
			}
			for i := 0; i < len(alpha); i++ {
				rec(prefix + string(alpha[i]))
			}
		}
		rec("")
		c.Set("exhaustive_scope", fmt.Sprintf("all %d-symbol-alphabet strings of length 1..%d: complete", len(alpha), L))
		c.Exhaustive(false)
		// lengths 1..70
		for l := 1; l <= 70; l++ {
			one(strings.Repeat("b", l), "lengths")
			one("x"+strings.Repeat("-", maxInt(l-2, 0))+"y", "lengths")
			if l >= 7 {
				one(strings.Repeat("c", l-4)+".ddd", "lengths")
			}
		}
		// dotted multi-label names with label lengths 1..4
		for a := 1; a <= 4; a++ {
			for b := 1; b <= 4; b++ {
				one(strings.Repeat("p", a)+"."+strings.Repeat("q", b), "labels")
				for cc := 1; cc <= 4; cc++ {
					one(strings.Repeat("p", a)+"."+strings.Repeat("q", b)+"."+strings.Repeat("r", cc), "labels")
				}
			}
		}
		for _, s := range []string{"192.168.100.200", "127.000.000.001", "255.255.255.255", "256.256.256.256", "999.999.999.999", "100.200.100", "100.200.100.200.100",
			"1.2.3.4", "10.0.0.1", "192.168.5.4", "::1", "fe80::1", "2001:db8::1", "1234:5678::", "abc.192.168", "192.168.100.abc", "0x7f.000.000.001",
			"aaa..bbb", ".aaa", "aaa.", "aaa.-bb", "aaa.bb-", "aaa.b-b", "-aa", "aa-", "a-a", "a--a", "xn--abc", "aaa.bbb.ccc.ddd.eee", "aaa-.bbb", "aaa.-bbb",
			"AAA", "aAa", "aaa_bbb", "aaa bbb", "aaa%20b", "aaa+bbb", "_meta", "meta", "bucket", "metadata", "buckets", "aaa\tbbb", "ααα", "aaé", "日本語", "aaa?x=1", "aaa#frag", "aaa;b", "aaa&b", "aaa=b", "aaa:b", "aaa@b", "a*a", "(aa)", "aaa,b", "aa'a", "aa\"a", "a\\a", "aaa~", "~aa", "aa!", "a$a", "a.b.c", "ab.cd", "abc.de", "abc.def", "abc.def.gh"} {
			one(s, "probes")
		}
	}
	rapidRun(t, "random", evid.Scale(1500, 40000), func(rt *rapid.T) {
		var name string
		switch rapid.IntRange(0, 3).Draw(rt, "class") {
		case 0:
			name = rapid.StringMatching(`[a-z0-9\-\.]{1,70}`).Draw(rt, "name")
		case 1:
			nl := rapid.IntRange(1, 5).Draw(rt, "labels")
			var ls []string
			for i := 0; i < nl; i++ {
				ls = append(ls, rapid.StringMatching(`[a-z0-9][a-z0-9\-]{0,14}[a-z0-9]?`).Draw(rt, "label"))
			}
			name = strings.Join(ls, ".")
		case 2:
			name = rapid.StringMatching(`[0-9]{1,3}\.[0-9]{1,3}\.[0-9]{1,3}\.[0-9]{1,3}`).Draw(rt, "ip")
		default:
			name = rapid.StringOfN(rapid.Rune(), 1, 20, 70).Draw(rt, "uni")
		}
		if name == "" || strings.ContainsAny(name, "/\x00") || !utf8.ValidString(name) {
			rt.Skip()
		}
		if one(name, "random") {
			rt.Fatalf("C17 violated for %q", name)
		}
	})
	// requests other than create-bucket never make a bucket appear, however they spell the bucket
	for _, k := range kinds {
		e := envs[k]
		for _, probe := range [][2]string{{"PUT", "/./ghost-a/obj"}, {"PUT", "/../ghost-b/obj"}, {"PUT", "/%2e/ghost-c/obj"}, {"PUT", "/%2E%2E/ghost-d/obj"}, {"PUT", "/never-created/obj"},
			{"PUT", "/GHOST/obj"}, {"PUT", "/ghost_e/obj"}, {"POST", "/ghost-f/obj?uploads"}, {"PUT", "/ghost-g?versioning"}, {"DELETE", "/ghost-h/obj"}, {"GET", "/ghost-i?uploads"},
			{"PUT", "/./ghost-k/d/obj"}, {"PUT", "//ghost-l/obj"}, {"POST", "/ghost-m?delete"}} {
			body := []byte("x")
			if strings.HasSuffix(probe[1], "?versioning") {
				body = []byte(`<VersioningConfiguration><Status>Enabled</Status></VersioningConfiguration>`)
			}
			if strings.HasSuffix(probe[1], "?delete") {
				body = []byte(`<Delete><Object><Key>obj</Key></Object></Delete>`)
			}
			r := s3x.Do(e.st.Handler, &s3x.Req{Method: probe[0], RawTarget: probe[1], Body: body})
			cs := c17Case{k, probe[0] + " " + probe[1]}
			var ds []disc
			if r.Panic != "" {
				ds = dsc("panic", "backend=%s %s %s: %s at %s", k, probe[0], probe[1], r.Panic, r.PanicSite)
			}
			ds = append(ds, e.checkList()...)
			c.Case(evid.FP(string(k), "probe", probe[0], probe[1]), true, func() interface{} { return cs }, "backend:"+string(k), "src:no-create-probe")
			report(c, "listbuckets", ds, cs)
		}
	}
	// storing objects (of any size, by any route) in a bucket that was created makes no other bucket appear
	for _, k := range kinds {
		e := envs[k]
		ds, _, acc := e.create("objects-go-here")
		if !acc {
			report(c, "listbuckets", append(ds, dsc("harness", "backend=%s: cannot create the bucket for the object probes", k)...), c17Case{k, "objects-go-here"})
			continue
		}
		for _, n := range []int{0, 1, 4096, 32768, 32769, 300000, 1<<20 + 3} {
			key := fmt.Sprintf("dir/object-%d", n)
			r := put(e.st, "objects-go-here", key, prog.Pattern(n, uint64(n)))
			cs := c17Case{k, fmt.Sprintf("PUT /objects-go-here/%s (%d bytes)", key, n)}
			var pd []disc
			if r.Status != 200 {
				pd = dsc("harness", "backend=%s: %s answered %s", k, cs.Name, r)
			}
			pd = append(pd, e.checkList()...)
			for _, internal := range []string{"_blobs", "_meta", "_parts", "_chunks", "_objects"} {
				if h := s3x.Do(e.st.Handler, &s3x.Req{Method: "HEAD", Path: "/" + internal}); h.Status == 200 {
					pd = append(pd, dsc("internal-storage-addressable", "backend=%s: after %s, HEAD /%s answers 200", k, cs.Name, internal)...)
				}
			}
			c.Case(evid.FP(string(k), "object-probe", fmt.Sprint(n)), true, func() interface{} { return cs }, "backend:"+string(k), "src:object-probe")
			report(c, "listbuckets", pd, cs)
		}
		// keys that climb out of the bucket must not make a sibling directory (that is: a bucket) appear
		for _, probe := range [][2]string{{"PUT", "/objects-go-here/../ghost-n/obj"}, {"PUT", "/objects-go-here/%2e%2e/ghost-o/obj"}, {"PUT", "/objects-go-here/x/../../ghost-p/obj"}, {"PUT", "/objects-go-here/../ghost-q"},
			{"POST", "/objects-go-here/../ghost-r/obj?uploads"}, {"API", "../ghost-s/obj"}, {"API", "x/../../ghost-t/obj"}, {"API", "../ghost-u"}} {
			cs := c17Case{k, probe[0] + " " + probe[1]}
			var pd []disc
			if probe[0] == "API" {
				func() {
					defer func() {
						if p := recover(); p != nil {
							pd = dsc("panic", "backend=%s Backend.PutObject(%q): %v", k, probe[1], p)
						}
					}()
					e.st.Backend.PutObject("objects-go-here", probe[1], map[string]string{}, strings.NewReader("x"), 1)
				}()
			} else if r := s3x.Do(e.st.Handler, &s3x.Req{Method: probe[0], RawTarget: probe[1], Body: []byte("x")}); r.Panic != "" {
				pd = dsc("panic", "backend=%s %s %s: %s at %s", k, probe[0], probe[1], r.Panic, r.PanicSite)
			}
			pd = append(pd, e.checkList()...)
			c.Case(evid.FP(string(k), "climbing-key", probe[0], probe[1]), true, func() interface{} { return cs }, "backend:"+string(k), "src:climbing-key-probe")
			report(c, "listbuckets", pd, cs)
		}
		// a multipart upload and a copy as well
		x := s3x.Do(e.st.Handler, &s3x.Req{Method: "POST", Path: "/objects-go-here/mp", Query: s3x.Q("uploads", s3x.Bare)})
		var d s3x.InitiateDoc
		if x.Status == 200 && x.XML(&d) == nil {
			s3x.Do(e.st.Handler, &s3x.Req{Method: "PUT", Path: "/objects-go-here/mp", Query: s3x.Q("partNumber", "1", "uploadId", d.UploadId), Body: prog.Pattern(70000, 3)})
		}
		s3x.Do(e.st.Handler, &s3x.Req{Method: "PUT", Path: "/objects-go-here/copied", Header: s3x.H("X-Amz-Copy-Source", "/objects-go-here/dir/object-300000")})
		report(c, "listbuckets", e.checkList(), c17Case{k, "(after multipart and copy)"})
	}
	// the listing while an upload is in flight
	for _, k := range kinds {
		for _, via := range []string{"put", "part", "post"} {
			cs := c17Case{k, "in-flight " + via}
			ds, reached := c17InFlight(envs[k], via)
			labels := []string{"backend:" + string(k), "src:in-flight-upload"}
			if reached {
				labels = append(labels, "listed-while-upload-held")
			}
			c.Case(evid.FP(string(k), "in-flight", via), reached, func() interface{} { return cs }, labels...)
			var real []disc
			for _, d := range ds {
				if strings.HasPrefix(d.Kind, "inconclusive:") {
					c.Unjudged(d.Detail)
					continue
				}
				real = append(real, d)
			}
			report(c, "listbuckets", real, cs)
		}
	}
	// buckets that were deleted again
	for _, k := range kinds {
		for _, spec := range c17DeletedSpecs {
			cs := c17Case{k, "deleted-bucket " + spec}
			ds := c17Deleted(envs[k], spec)
			c.Case(evid.FP(string(k), "deleted-bucket", spec), true, func() interface{} { return cs }, "backend:"+string(k), "src:deleted-bucket")
			report(c, "listbuckets", ds, cs)
		}
	}
	for _, k := range kinds {
		report(c, "listbuckets", envs[k].checkList(), c17Case{k, "(final)"})
	}
	c.Set("names_accepted", valid)
}

// FuzzC17 is the coverage-guided target of the thorough tier.
func FuzzC17(f *testing.F) {
	for _, s := range []string{"abc", "ab", "a.b", "abc.def", "192.168.100.200", "aaa-", "AAA", strings.Repeat("a", 63), strings.Repeat("a", 64), "aaa..bbb", "_meta"} {
		f.Add(s)
	}
	envs := []*c17Env{newC17Env(backends.Mem), newC17Env(backends.MultiMem)}
	f.Fuzz(func(t *testing.T, name string) {
		if name == "" || len(name) > 200 || strings.ContainsAny(name, "/\x00") || !utf8.ValidString(name) {
			return
		}
		var acc []bool
		for _, e := range envs {
			if e.created[name] {
				return
			}
			ds, _, a := e.create(name)
			acc = append(acc, a)
			for _, d := range ds {
				t.Fatalf("C17: %s", d)
			}
			if a {
				// keep the store small: delete the bucket again
				s3x.Do(e.st.Handler, &s3x.Req{Method: "DELETE", Path: "/" + name})
				delete(e.created, name)
			}
		}
		if acc[0] != acc[1] {
			t.Fatalf("C17: backends differ for %q: %v", name, acc)
		}
	})
}

//go:build verif

package props

import (
	"encoding/json"
	"fmt"
	"os"
	"testing"

	"verif/harness/backends"
	"verif/harness/prog"
	"verif/harness/s3x"
)

func TestZZProbe(t *testing.T) {
	raw, _ := os.ReadFile(os.Getenv("ZZ_FILE"))
	var f struct {
		Case c13Case `json:"case"`
	}
	if err := json.Unmarshal(raw, &f); err != nil {
		t.Fatal(err)
	}
	st := backends.Must(backends.Mem, backends.Options{})
	defer st.Close()
	r := prog.NewRunner(st)
	r.Step(prog.Op{K: "mkbucket", B: "bk0"})
	for i, op := range f.Case.Ops {
		sd := r.Step(op)
		v := s3x.Do(st.Handler, &s3x.Req{Method: "GET", Path: "/bk0", Query: s3x.Q("versions", s3x.Bare)})
		doc, _ := s3x.ParseVersions(v.Body)
		s := ""
		for _, e := range doc.Entries {
			id := e.VersionId
			if len(id) > 8 {
				id = id[len(id)-8:]
			}
			s += fmt.Sprintf(" %s:%s:m=%v:l=%v", e.Key, id, e.IsMarker, e.IsLatest)
		}
		ms := ""
		for k, mk := range r.M.Buckets["bk0"].Keys {
			for _, e := range mk.Entries {
				id := e.ID
				if len(id) > 8 {
					id = id[len(id)-8:]
				}
				ms += fmt.Sprintf(" %s:%s:m=%v:null=%v", k, id, e.Marker, e.Null)
			}
		}
		fmt.Printf("%2d %-8s %-4s ref=%d vrefs=%v -> disc=%v\n     impl:%s\n     model:%s\n", i, op.K, op.Key, op.Ref, op.VRefs, len(sd), s, ms)
	}
}

//go:build verif

package props

import (
	"bufio"
	"bytes"
	"encoding/json"
	"fmt"
	"io"
	"net/http"
	"os"
	"os/exec"
	"path/filepath"
	"regexp"
	"sort"
	"strings"
	"sync"
	"syscall"
	"testing"
	"time"

	"verif/harness/backends"
	"verif/harness/evid"
	"verif/harness/prog"
	"verif/harness/s3x"

	"github.com/spf13/afero"
	"pgregory.net/rapid"
)

// C15 — acknowledged state of the persistent backends survives restart.

type c15Case struct {
	Backend backends.Kind `json:"backend"`
	Ops     []prog.Op     `json:"ops"` // op "reopen" = close and start a new server on the same storage
	// crash enumeration: the op at index Target is interrupted before its K-th mutating file-system call
	Target int `json:"target,omitempty"`
	K      int `json:"k,omitempty"`
	// check "bolt-snapshots": see c15BoltSnapshots
	BoltOps []c15BoltOp `json:"boltOps,omitempty"`
}

// c15Snapshot: buckets, keys, bodies, sizes, ETags and user metadata of everything the model holds.
func c15Snapshot(st *backends.Stack, m *prog.Model) (string, []disc) {
	var sb strings.Builder
	var ds []disc
	r := s3x.Do(st.Handler, &s3x.Req{Method: "GET", Path: "/"})
	var bd s3x.BucketsDoc
	if r.Status != 200 || r.XML(&bd) != nil {
		ds = append(ds, dsc("listbuckets-failed", "ListBuckets answered %s", r)...)
	}
	names := bd.Names()
	sort.Strings(names)
	fmt.Fprintf(&sb, "buckets %v\n", names)
	var bs []string
	for b := range m.Buckets {
		bs = append(bs, b)
	}
	sort.Strings(bs)
	for _, b := range bs {
		doc, lr := listDoc(st, b)
		if doc == nil {
			ds = append(ds, dsc("list-failed", "listing bucket %s answered %s", b, lr)...)
			continue
		}
		var es []string
		for _, c := range doc.Contents {
			es = append(es, fmt.Sprintf("%s:%d:%s", c.Key, c.Size, c.ETag))
		}
		sort.Strings(es)
		fmt.Fprintf(&sb, "%s: %v\n", b, es)
		mb := m.Buckets[b]
		for _, k := range mb.LiveKeys() {
			for _, method := range []string{"GET", "HEAD"} {
				g := s3x.Do(st.Handler, &s3x.Req{Method: method, Path: "/" + b + "/" + k})
				var hs []string
				for h, v := range g.Header {
					if strings.HasPrefix(h, "X-Amz-Meta-") || h == "Content-Type" {
						hs = append(hs, h+"="+strings.Join(v, ","))
					}
				}
				sort.Strings(hs)
				fmt.Fprintf(&sb, "  %s %s/%s -> %d %s len=%s etag=%s %v\n", method, b, k, g.Status, md5hex(g.Body), g.Header.Get("Content-Length"), g.Header.Get("ETag"), hs)
			}
		}
	}
	return sb.String(), ds
}

// ---- (a) clean reopen -------------------------------------------------------------------

func c15Reopen(cs c15Case) (ds []disc, info map[string]int) {
	info = map[string]int{}
	st := backends.Must(cs.Backend, backends.Options{BoltSync: false})
	defer st.Close()
	r := prog.NewRunner(st)
	overwrite, deletes := 0, 0
	for i, op := range cs.Ops {
		if op.K == "reopen" {
			before, d1 := c15Snapshot(st, r.M)
			if err := st.Reopen(); err != nil {
				return dsc("reopen-failed", "step %d: cannot reopen the store: %v", i, err), info
			}
			if overwrite > 0 && deletes > 0 {
				info["reopen-after-overwrite-and-delete"]++
			}
			info["reopens"]++
			after, d2 := c15Snapshot(st, r.M)
			if len(d1)+len(d2) > 0 {
				return append(d1, d2...), info
			}
			if before != after {
				return dsc("state-changed-by-restart", "step %d: the store reads differently after a clean restart:\n--- before\n%s--- after\n%s", i, before, after), info
			}
			// and everything still agrees with the model
			if d := r.Invariant(c02Keys); len(d) > 0 {
				for j := range d {
					d[j].Kind = "after-restart:" + d[j].Kind
				}
				return d, info
			}
			continue
		}
		if mb := r.M.Buckets[op.B]; mb != nil {
			if op.K == "put" && mb.Live(op.Key) != nil {
				overwrite++
			}
			if (op.K == "del" && mb.Live(op.Key) != nil) || op.K == "mdel" {
				deletes++
			}
		}
		if sd := r.Step(op); len(sd) > 0 {
			for j := range sd {
				sd[j].Detail = fmt.Sprintf("step %d: %s", i, sd[j].Detail)
			}
			return sd, info
		}
	}
	return nil, info
}

// ---- (b) crash-point enumeration (fs backends) ---------------------------------------------

type c15World struct {
	ctl *backends.FaultCtl
	st  *backends.Stack
	r   *prog.Runner
}

func c15NewWorld(k backends.Kind) *c15World {
	ctl := backends.NewFaultCtl()
	st := backends.Must(k, backends.Options{WrapFs: func(fs afero.Fs) afero.Fs { return ctl.Wrap(fs) }})
	return &c15World{ctl: ctl, st: st, r: prog.NewRunner(st)}
}

// c15CrashPoints returns how many mutating calls the target op makes when it is not interrupted.
func c15CrashPoints(cs c15Case) (int, []string, []disc) {
	w := c15NewWorld(cs.Backend)
	defer w.st.Close()
	for i := 0; i < cs.Target; i++ {
		if d := w.r.Step(cs.Ops[i]); len(d) > 0 {
			return 0, nil, d
		}
	}
	before := w.ctl.Count()
	w.ctl.SetTrace(true)
	if d := w.r.Step(cs.Ops[cs.Target]); len(d) > 0 {
		return 0, nil, d
	}
	return int(w.ctl.Count() - before), w.ctl.Trace, nil
}

// c15Crash runs the history, kills the "process" before the K-th mutating call of the target
// op, restarts on the same storage and judges what the new server shows.
func c15Crash(cs c15Case) (ds []disc, insideOverwrite bool) {
	w := c15NewWorld(cs.Backend)
	defer w.st.Close()
	for i := 0; i < cs.Target; i++ {
		if d := w.r.Step(cs.Ops[i]); len(d) > 0 {
			for j := range d {
				d[j].Kind = "history:" + d[j].Kind
			}
			return d, false
		}
	}
	op := cs.Ops[cs.Target]
	fail := func(kind, f string, a ...interface{}) {
		ds = append(ds, disc{Kind: kind, Detail: fmt.Sprintf("backend=%s crash before mutating call %d of [%s] after %d earlier ops: ", cs.Backend, cs.K, op, cs.Target) + fmt.Sprintf(f, a...)})
	}
	// the acknowledged state before the interrupted op
	type objState struct {
		live bool
		body []byte
		meta map[string]string
	}
	stateOf := func(b, k string) objState {
		if mb := w.r.M.Buckets[b]; mb != nil {
			if v := mb.Live(k); v != nil {
				return objState{true, v.Body, v.Meta}
			}
		}
		return objState{}
	}
	touched := map[string]bool{}
	switch op.K {
	case "put", "del", "copy":
		touched[op.B+"\x00"+op.Key] = true
	case "mdel":
		for _, k := range op.Keys {
			touched[op.B+"\x00"+k] = true
		}
	}
	old := map[string]objState{}
	for id := range touched {
		p := strings.SplitN(id, "\x00", 2)
		old[id] = stateOf(p[0], p[1])
	}
	insideOverwrite = op.K == "put" && old[op.B+"\x00"+op.Key].live && cs.K > 0
	// what the op would have stored
	newState := map[string]objState{}
	switch op.K {
	case "put":
		newState[op.B+"\x00"+op.Key] = objState{true, op.Body, metaOf(op.Meta)}
	case "copy":
		newState[op.B+"\x00"+op.Key] = stateOf(op.SB, op.SKey)
	}
	// snapshot of the untouched keys
	untouched := map[string]objState{}
	for b, mb := range w.r.M.Buckets {
		for _, k := range mb.LiveKeys() {
			if !touched[b+"\x00"+k] {
				untouched[b+"\x00"+k] = stateOf(b, k)
			}
		}
	}
	bucketsBefore := map[string]bool{}
	for b := range w.r.M.Buckets {
		bucketsBefore[b] = true
	}
	// ---- run the op and kill it
	w.ctl.Arm(int64(cs.K))
	resp := func() (r *s3x.Resp) {
		defer func() {
			if p := recover(); p != nil {
				r = &s3x.Resp{Panic: fmt.Sprint(p)}
			}
		}()
		w.r.Step(op) // discrepancies of the killed request itself are not judged
		return w.r.Last
	}()
	killed := w.ctl.Dead()
	_ = resp
	if !killed {
		return nil, false // the op made fewer mutating calls than K in this run: nothing to judge
	}
	// ---- restart
	w.ctl.Disarm()
	if err := w.st.Reopen(); err != nil {
		fail("reopen-failed", "the store does not open after the crash: %v", err)
		return
	}
	st := w.st
	r := s3x.Do(st.Handler, &s3x.Req{Method: "GET", Path: "/"})
	var bd s3x.BucketsDoc
	if r.Status != 200 || r.XML(&bd) != nil {
		fail("listbuckets-failed-after-crash", "ListBuckets answered %s", r)
		return
	}
	got := map[string]bool{}
	for _, n := range bd.Names() {
		got[n] = true
	}
	for b := range bucketsBefore {
		if !got[b] && !(op.K == "rmbucket" && op.B == b) {
			fail("bucket-lost", "bucket %s, created before the crash, is gone", b)
		}
	}
	check := func(id string, allowed []objState, what string) {
		p := strings.SplitN(id, "\x00", 2)
		g := s3x.Do(st.Handler, &s3x.Req{Method: "GET", Path: "/" + p[0] + "/" + p[1]})
		h := s3x.Do(st.Handler, &s3x.Req{Method: "HEAD", Path: "/" + p[0] + "/" + p[1]})
		if g.Panic != "" || h.Panic != "" {
			fail("panic-after-crash", "GET/HEAD %s/%s: %s %s", p[0], p[1], g.Panic, h.Panic)
			return
		}
		for _, a := range allowed {
			if !a.live {
				if g.Status == 404 && h.Status == 404 {
					return
				}
				continue
			}
			if g.Status != 200 || !bytes.Equal(g.Body, a.body) {
				continue
			}
			okMeta := g.Header.Get("ETag") == etagOf(a.body) && h.Header.Get("ETag") == etagOf(a.body) && g.Header.Get("Content-Length") == fmt.Sprint(len(a.body))
			for k, v := range a.meta {
				if prog.IsMetaHeader(k) && g.Header.Get(k) != v {
					okMeta = false
				}
			}
			if okMeta {
				return
			}
			if g.Header.Get("ETag") != etagOf(a.body) || h.Header.Get("ETag") != etagOf(a.body) || g.Header.Get("Content-Length") != fmt.Sprint(len(a.body)) {
				fail(what+"-etag-does-not-match-bytes", "%s/%s serves %d bytes (md5 %s) with GET ETag %s / HEAD ETag %s / Content-Length %s", p[0], p[1], len(a.body), md5hex(a.body), g.Header.Get("ETag"), h.Header.Get("ETag"), g.Header.Get("Content-Length"))
				return
			}
			fail(what+"-mixed-versions", "%s/%s has the bytes of one version (%d bytes) but ETag %s / Content-Length %s / metadata of another (want ETag %s, meta %v; got headers %v)", p[0], p[1], len(a.body), g.Header.Get("ETag"), g.Header.Get("Content-Length"), etagOf(a.body), a.meta, metaHeaders(g))
			return
		}
		var want []string
		for _, a := range allowed {
			if a.live {
				want = append(want, fmt.Sprintf("%d bytes md5 %s", len(a.body), md5hex(a.body)))
			} else {
				want = append(want, "absent")
			}
		}
		// Whatever a crash leaves behind, the entity headers must describe the bytes that are served:
		// this is demanded even where the open finding about non-atomic writes applies.
		if g.Status == 200 && (g.Header.Get("ETag") != etagOf(g.Body) || h.Header.Get("ETag") != etagOf(g.Body) || g.Header.Get("Content-Length") != fmt.Sprint(len(g.Body)) || h.Header.Get("Content-Length") != fmt.Sprint(len(g.Body))) {
			fail(what+"-etag-does-not-match-bytes", "%s/%s serves %d bytes (md5 %s) with GET ETag %s / HEAD ETag %s / Content-Length %s / HEAD Content-Length %s", p[0], p[1], len(g.Body), md5hex(g.Body), g.Header.Get("ETag"), h.Header.Get("ETag"), g.Header.Get("Content-Length"), h.Header.Get("Content-Length"))
			return
		}
		fail(what+"-neither-old-nor-new", "%s/%s reads GET %d (%d bytes, md5 %s) / HEAD %d, which is none of: %v", p[0], p[1], g.Status, len(g.Body), md5hex(g.Body), h.Status, want)
	}
	for id, s := range untouched {
		check(id, []objState{s}, "acknowledged-write")
	}
	for id := range touched {
		allowed := []objState{old[id]}
		if ns, ok := newState[id]; ok {
			allowed = append(allowed, ns)
		} else {
			allowed = append(allowed, objState{}) // deleted
		}
		check(id, allowed, "in-flight-write")
	}
	for b := range bucketsBefore {
		if !got[b] {
			continue
		}
		doc, lr := listDoc(st, b)
		if doc == nil {
			fail("list-failed-after-crash", "listing bucket %s answered %s", b, lr)
			continue
		}
		for _, c := range doc.Contents {
			id := b + "\x00" + c.Key
			if _, ok := untouched[id]; !ok && !touched[id] {
				fail("phantom-key-after-crash", "bucket %s lists %q (%d bytes), which no acknowledged or in-flight write created", b, c.Key, c.Size)
			}
		}
	}
	return
}

func metaOf(kv [][2]string) map[string]string {
	m := map[string]string{}
	for _, e := range kv {
		m[httpCanon(e[0])] = e[1]
	}
	return m
}

func metaHeaders(r *s3x.Resp) []string {
	var hs []string
	for h, v := range r.Header {
		if strings.HasPrefix(h, "X-Amz-Meta-") || h == "Content-Type" {
			hs = append(hs, h+"="+strings.Join(v, ","))
		}
	}
	sort.Strings(hs)
	return hs
}

// known finding: the fs backends write object file and metadata file separately and in place
func c15Classify(cs c15Case, ds []disc) []disc {
	k := cs.Backend
	// a delete is not part of the finding: removing the object's file is its one commit point
	// (what is left of the metadata is not served without the file)
	del := cs.Target >= 0 && cs.Target < len(cs.Ops) && (cs.Ops[cs.Target].K == "del" || cs.Ops[cs.Target].K == "mdel")
	for i := range ds {
		if !k.IsFs() {
			continue
		}
		switch {
		case (ds[i].Kind == "in-flight-write-mixed-versions" || ds[i].Kind == "in-flight-write-neither-old-nor-new") && !del:
			ds[i].KF = "KF-C15-fs-crash-atomicity"
		case ds[i].Kind == "phantom-key-after-crash" && strings.Contains(ds[i].Detail, ".modtime-resolution"):
			ds[i].KF = "KF-C15-fs-crash-atomicity"
		}
	}
	return ds
}

// ---- (c) the real binary ------------------------------------------------------------------------

var (
	c15BinOnce sync.Once
	c15BinPath string
	c15BinErr  error
)

func c15Binary() (string, error) {
	c15BinOnce.Do(func() {
		dir, err := os.MkdirTemp("", "verif-bin-")
		if err != nil {
			c15BinErr = err
			return
		}
		c15BinPath = filepath.Join(dir, "gofakes3")
		cmd := exec.Command("go", "build", "-o", c15BinPath, "github.com/johannesboyne/gofakes3/cmd/gofakes3")
		cmd.Dir = ".." // the harness module (replace => /repo), so -mod=mod never touches /repo/go.sum
		out, err := cmd.CombinedOutput()
		if err != nil {
			c15BinErr = fmt.Errorf("go build cmd/gofakes3: %v\n%s", err, out)
		}
	})
	return c15BinPath, c15BinErr
}

type c15Server struct {
	cmd  *exec.Cmd
	base string
	log  *bytes.Buffer
}

var rePort = regexp.MustCompile(`using port: (\d+)`)

func c15Start(bin string, args ...string) (*c15Server, error) {
	cmd := exec.Command(bin, append([]string{"-host", "127.0.0.1:0"}, args...)...)
	stderr, err := cmd.StderrPipe()
	if err != nil {
		return nil, err
	}
	cmd.Stdout = io.Discard
	if err := cmd.Start(); err != nil {
		return nil, err
	}
	s := &c15Server{cmd: cmd, log: &bytes.Buffer{}}
	port := make(chan string, 1)
	go func() {
		sc := bufio.NewScanner(stderr)
		sent := false
		for sc.Scan() {
			line := sc.Text()
			if s.log.Len() < 1<<16 {
				s.log.WriteString(line + "\n")
			}
			if m := rePort.FindStringSubmatch(line); m != nil && !sent {
				sent = true
				port <- m[1]
			}
		}
		if !sent {
			port <- ""
		}
	}()
	select {
	case p := <-port:
		if p == "" {
			cmd.Process.Kill()
			cmd.Wait()
			return nil, fmt.Errorf("server exited before listening: %s", s.log.String())
		}
		s.base = "http://127.0.0.1:" + p
	case <-time.After(20 * time.Second):
		cmd.Process.Kill()
		cmd.Wait()
		return nil, fmt.Errorf("server did not report its port within 20 s: %s", s.log.String())
	}
	return s, nil
}

func (s *c15Server) kill(sig syscall.Signal) {
	s.cmd.Process.Signal(sig)
	s.cmd.Wait()
}

var c15Client = &http.Client{Timeout: 30 * time.Second}

func c15HTTP(method, url string, body []byte, hdr map[string]string) (int, []byte, http.Header, error) {
	req, err := http.NewRequest(method, url, bytes.NewReader(body))
	if err != nil {
		return 0, nil, nil, err
	}
	for k, v := range hdr {
		req.Header.Set(k, v)
	}
	resp, err := c15Client.Do(req)
	if err != nil {
		return 0, nil, nil, err
	}
	defer resp.Body.Close()
	b, _ := io.ReadAll(resp.Body)
	return resp.StatusCode, b, resp.Header, nil
}

type c15BinCfg struct {
	Name   string
	Args   func(dir string) []string
	Bucket string
}

var c15BinCfgs = []c15BinCfg{
	{"bolt", func(d string) []string {
		return []string{"-backend", "bolt", "-bolt.db", filepath.Join(d, "s3.db"), "-initialbucket", "bk0"}
	}, "bk0"},
	{"fs", func(d string) []string {
		return []string{"-backend", "fs", "-fs.path", filepath.Join(d, "fs"), "-fs.create", "-initialbucket", "bk0"}
	}, "bk0"},
	{"directfs", func(d string) []string {
		return []string{"-backend", "directfs", "-directfs.path", filepath.Join(d, "bucket"), "-directfs.meta", filepath.Join(d, "meta"), "-directfs.create", "-directfs.bucket", "bk0"}
	}, "bk0"},
}

// c15BinaryRounds: start, write, stop (SIGKILL after a delay when kill is true, else after the
// writes finished), restart, verify. rounds accumulate state.
func c15BinaryRounds(cfg c15BinCfg, rounds int, kill bool, seed uint64) (ds []disc, inflightKills int) {
	bin, err := c15Binary()
	if err != nil {
		return dsc("inconclusive:build", "%v", err), 0
	}
	dir, err := os.MkdirTemp("", "verif-c15-"+cfg.Name+"-")
	if err != nil {
		return dsc("inconclusive:tmp", "%v", err), 0
	}
	defer os.RemoveAll(dir)
	fail := func(kind, f string, a ...interface{}) {
		ds = append(ds, disc{Kind: kind, Detail: fmt.Sprintf("binary -backend %s (kill -9=%v): ", cfg.Name, kill) + fmt.Sprintf(f, a...)})
	}
	type obj struct {
		body []byte
		meta string
	}
	acked := map[string]*obj{}   // key -> last acknowledged state (nil = acknowledged delete)
	maybe := map[string][]*obj{} // key -> states of writes that were in flight at a kill
	rng := seed*2862933555777941757 + 3037000493
	next := func(n int) int {
		rng = rng*2862933555777941757 + 3037000493
		return int((rng >> 33) % uint64(n))
	}
	for round := 0; round < rounds; round++ {
		srv, err := c15Start(bin, cfg.Args(dir)...)
		if err != nil {
			fail("server-does-not-start", "round %d: %v", round, err)
			return
		}
		// ---- verify what the previous rounds left
		st, body, _, err := c15HTTP("GET", srv.base+"/"+cfg.Bucket, nil, nil)
		if err != nil || st != 200 {
			fail("list-failed-after-restart", "round %d: listing answered %d %v %s", round, st, err, trunc(body, 200))
		}
		keys := make([]string, 0, len(acked))
		for k := range acked {
			keys = append(keys, k)
		}
		sort.Strings(keys)
		for _, k := range keys {
			want := acked[k]
			st, b, h, err := c15HTTP("GET", srv.base+"/"+cfg.Bucket+"/"+k, nil, nil)
			if err != nil {
				fail("get-failed-after-restart", "round %d key %s: %v", round, k, err)
				continue
			}
			cands := append([]*obj{want}, maybe[k]...)
			ok := false
			for _, c := range cands {
				if c == nil {
					ok = ok || st == 404
					continue
				}
				if st == 200 && bytes.Equal(b, c.body) && h.Get("ETag") == etagOf(c.body) && h.Get("X-Amz-Meta-Gen") == c.meta {
					ok = true
				}
			}
			if !ok {
				kind := "acknowledged-write-lost"
				if len(maybe[k]) > 0 {
					kind = "in-flight-write-neither-old-nor-new"
				}
				desc := "absent"
				if want != nil {
					desc = fmt.Sprintf("%d bytes md5 %s meta %s", len(want.body), md5hex(want.body), want.meta)
				}
				fail(kind, "round %d key %s: after restart GET answers %d with %d bytes (md5 %s, ETag %s, meta %q); acknowledged state: %s (+%d in-flight candidates)", round, k, st, len(b), md5hex(b), h.Get("ETag"), h.Get("X-Amz-Meta-Gen"), desc, len(maybe[k]))
			}
			// settle: whatever is there now is the acknowledged state for later rounds
			if st == 200 {
				acked[k] = &obj{b, h.Get("X-Amz-Meta-Gen")}
			} else if st == 404 {
				acked[k] = nil
			}
		}
		maybe = map[string][]*obj{}
		if len(ds) > 0 {
			srv.kill(syscall.SIGKILL)
			return
		}
		// ---- writers
		var mu sync.Mutex
		var wg sync.WaitGroup
		stop := make(chan struct{})
		nw := 1
		if kill {
			nw = 4
		}
		for wi := 0; wi < nw; wi++ {
			wg.Add(1)
			go func(wi int, seed int) {
				defer wg.Done()
				x := uint64(seed)
				for i := 0; ; i++ {
					select {
					case <-stop:
						return
					default:
					}
					if !kill && i >= 12 {
						return
					}
					x = x*6364136223846793005 + 1442695040888963407
					key := fmt.Sprintf("w%d/k%d", wi, (x>>40)%4)
					if (x>>50)%5 == 0 {
						mu.Lock()
						maybe[key] = append(maybe[key], nil)
						mu.Unlock()
						st, _, _, err := c15HTTP("DELETE", srv.base+"/"+cfg.Bucket+"/"+key, nil, nil)
						if err == nil && st == 204 {
							mu.Lock()
							acked[key] = nil
							maybe[key] = nil
							mu.Unlock()
						}
						continue
					}
					size := []int{0, 10, 5000, 70000, 400000}[(x>>30)%5]
					gen := fmt.Sprintf("r%d-w%d-i%d", round, wi, i)
					o := &obj{append([]byte(gen+"|"), prog.Pattern(size, x)...), gen}
					mu.Lock()
					maybe[key] = append(maybe[key], o)
					mu.Unlock()
					st, _, _, err := c15HTTP("PUT", srv.base+"/"+cfg.Bucket+"/"+key, o.body, map[string]string{"X-Amz-Meta-Gen": gen})
					if err == nil && st == 200 {
						mu.Lock()
						acked[key] = o
						maybe[key] = nil
						mu.Unlock()
					}
				}
			}(wi, int(seed)+round*100+wi)
		}
		if kill {
			time.Sleep(time.Duration(30+next(400)) * time.Millisecond)
			srv.kill(syscall.SIGKILL)
			close(stop)
			wg.Wait()
			mu.Lock()
			for _, v := range maybe {
				if len(v) > 0 {
					inflightKills++
					break
				}
			}
			mu.Unlock()
		} else {
			wg.Wait()
			close(stop)
			srv.kill(syscall.SIGTERM)
		}
		// keys never acknowledged but possibly written
		mu.Lock()
		for k := range maybe {
			if _, ok := acked[k]; !ok && len(maybe[k]) > 0 {
				acked[k] = nil
			}
		}
		mu.Unlock()
	}
	// final verification round
	srv, err := c15Start(bin, cfg.Args(dir)...)
	if err != nil {
		fail("server-does-not-start", "final restart: %v", err)
		return
	}
	defer srv.kill(syscall.SIGKILL)
	for k, want := range acked {
		st, b, h, err := c15HTTP("GET", srv.base+"/"+cfg.Bucket+"/"+k, nil, nil)
		if err != nil {
			fail("get-failed-after-restart", "final: key %s: %v", k, err)
			continue
		}
		cands := append([]*obj{want}, maybe[k]...)
		ok := false
		for _, c := range cands {
			if c == nil {
				ok = ok || st == 404
			} else if st == 200 && bytes.Equal(b, c.body) && h.Get("ETag") == etagOf(c.body) && h.Get("X-Amz-Meta-Gen") == c.meta {
				ok = true
			}
		}
		if !ok {
			kind := "acknowledged-write-lost"
			if len(maybe[k]) > 0 {
				kind = "in-flight-write-neither-old-nor-new"
			}
			fail(kind, "final: key %s reads %d with %d bytes (md5 %s, ETag %s, meta %q)", k, st, len(b), md5hex(b), h.Get("ETag"), h.Get("X-Amz-Meta-Gen"))
		}
	}
	st, body, _, err := c15HTTP("GET", srv.base+"/"+cfg.Bucket, nil, nil)
	if err != nil || st != 200 {
		fail("list-failed-after-restart", "final listing answered %d %v %s", st, err, trunc(body, 200))
	}
	return
}

// ---- plumbing ---------------------------------------------------------------------------------

func c15Replay(check string, raw json.RawMessage) ([]disc, error) {
	var cs c15Case
	if err := json.Unmarshal(raw, &cs); err != nil {
		return nil, err
	}
	switch check {
	case "crash":
		ds, _ := c15Crash(cs)
		return c15Classify(cs, ds), nil
	case "bolt-snapshots":
		ds, _ := c15BoltSnapshots(cs.BoltOps)
		return ds, nil
	case "binary":
		return nil, nil // schedule-dependent: the replay file carries the verdict; nothing deterministic to re-run
	}
	ds, _ := c15Reopen(cs)
	return ds, nil
}

func TestC15(t *testing.T) {
	runProp(t, propDef{
		ID:    "C15",
		Level: "fault_enumeration",
		Rule: "cases = (a) C02-style programs with 'reopen' ops on bolt / fs on a real directory / directfs with on-disk metadata: full snapshot (buckets, keys, bodies, sizes, ETags, metadata through GET, HEAD and listing) before == after every clean restart; " +
			"(a') bolt: during every op of put/overwrite/copy/delete programs (bodies up to 1 MiB) the database file is copied at every instant at which the server or the backend reads the clock and opened as a restarted server would: every earlier acknowledged object intact, the op's key wholly old or wholly new, no phantom keys; " +
			"(b) crash-point enumeration on the fs backends through a fault-injecting afero.Fs: for a history and a target op, the process is 'killed' before EVERY mutating file-system call of that op (writes split in 16 KiB units), a new server is started on the same storage and must open, list, show every earlier acknowledged write intact and the target key wholly old or wholly new; " +
			"(c) the real cmd/gofakes3 binary: start / write / stop / start cycles per persistent backend (quick), SIGKILL at sampled instants during concurrent uploads, overwrites and deletes (thorough); " +
			"non-trivial = a reopen after >= 1 overwrite and >= 1 delete, a crash point strictly inside an overwrite of an existing object, or a kill with a request in flight; distinct by the full case",
		Replay: c15Replay,
		Run:    c15Run,
	})
}

func c15GenProgram(rt *rapid.T, single bool) []prog.Op {
	var ops []prog.Op
	if !single {
		ops = append(ops, prog.Op{K: "mkbucket", B: "bk0"})
		if rapid.Bool().Draw(rt, "bk1") {
			ops = append(ops, prog.Op{K: "mkbucket", B: "bk1"})
		}
	}
	n := rapid.IntRange(4, 25).Draw(rt, "n")
	for i := 0; i < n; i++ {
		if rapid.IntRange(0, 6).Draw(rt, "reopen") == 0 {
			ops = append(ops, prog.Op{K: "reopen"})
			continue
		}
		if rapid.IntRange(0, 5).Draw(rt, "reput") == 0 {
			// the same bytes again under the same key, with other metadata: only the metadata changes
			var puts []prog.Op
			for _, o := range ops {
				if o.K == "put" {
					puts = append(puts, o)
				}
			}
			if len(puts) > 0 {
				o := puts[rapid.IntRange(0, len(puts)-1).Draw(rt, "which")]
				o.Meta = [][2]string{{"X-Amz-Meta-Tag", fmt.Sprintf("re%d", i)}, {"Content-Type", fmt.Sprintf("text/re%d", i)}}
				o.Via = ""
				ops = append(ops, o)
				continue
			}
		}
		op := c02GenOp(rt, single, false)
		if op.K == "put" && rapid.IntRange(0, 3).Draw(rt, "bigbody") == 0 {
			op.Body = prog.Pattern(rapid.SampledFrom([]int{4096, 40000, 100000}).Draw(rt, "big"), uint64(i))
		}
		ops = append(ops, op)
	}
	return append(ops, prog.Op{K: "reopen"})
}

// ---- bolt: the database file as a kill would leave it at every instant at which the server or the
// backend reads the clock (between, before and after the transactions of an operation) ---------

type c15BoltOp struct {
	K    string `json:"op"` // put | del | copy
	Key  string `json:"key"`
	Size int    `json:"size,omitempty"`
	Seed uint64 `json:"seed,omitempty"`
	Src  string `json:"src,omitempty"`
}

type c15BoltObj struct {
	body []byte
	meta string
}

func c15BoltSnapshots(ops []c15BoltOp) (ds []disc, snapshots int) {
	scratch, err := os.MkdirTemp("", "verif-boltsnap-")
	if err != nil {
		panic(err)
	}
	defer os.RemoveAll(scratch)
	var st *backends.Stack
	var snaps []string
	armed := false
	hook := func() {
		if !armed || st == nil || len(snaps) >= 8 {
			return
		}
		b, err := os.ReadFile(st.BoltFile())
		if err != nil {
			return
		}
		p := filepath.Join(scratch, fmt.Sprintf("snap-%d.db", len(snaps)))
		if os.WriteFile(p, b, 0600) == nil {
			snaps = append(snaps, p)
		}
	}
	st = backends.Must(backends.Bolt, backends.Options{ClockHook: hook})
	defer st.Close()
	if err := ensureBucket(st, "bk0"); err != nil {
		panic(err)
	}
	acked := map[string]*c15BoltObj{}
	fail := func(kind, f string, a ...interface{}) {
		ds = append(ds, disc{Kind: kind, Detail: fmt.Sprintf(f, a...)})
	}
	for i, op := range ops {
		before := map[string]*c15BoltObj{}
		for k, v := range acked {
			before[k] = v
		}
		var after *c15BoltObj // state of op.Key once the op is acknowledged (nil = absent)
		meta := fmt.Sprintf("op%d", i)
		snaps = snaps[:0]
		armed = true
		var r *s3x.Resp
		switch op.K {
		case "put":
			body := prog.Pattern(op.Size, op.Seed)
			r = put(st, "bk0", op.Key, body, "X-Amz-Meta-Gen", meta)
			after = &c15BoltObj{body, meta}
		case "del":
			r = del(st, "bk0", op.Key)
		case "copy":
			r = s3x.Do(st.Handler, &s3x.Req{Method: "PUT", Path: "/bk0/" + op.Key, Header: s3x.H("X-Amz-Copy-Source", "/bk0/"+op.Src, "X-Amz-Meta-Gen", meta)})
			if src := before[op.Src]; src != nil {
				after = &c15BoltObj{src.body, meta}
			}
		}
		armed = false
		okStatus := r.Status == 200 || r.Status == 204 || (op.K == "copy" && before[op.Src] == nil && r.Status == 404)
		if r.Panic != "" || !okStatus {
			fail("op-failed", "op %d %+v answered %s", i, op, r)
			return ds, snapshots
		}
		if op.K == "copy" && before[op.Src] == nil {
			after = before[op.Key]
		}
		if after == nil {
			delete(acked, op.Key)
		} else {
			acked[op.Key] = after
		}
		// every snapshot taken while the op ran: open it as a restarted server would
		for si, p := range snaps {
			snapshots++
			rs, err := backends.New(backends.Bolt, backends.Options{BoltCopyOf: p})
			if err != nil {
				fail("open-failed-after-crash", "op %d %+v, file as of clock reading %d: the store does not open: %v", i, op, si, err)
				continue
			}
			check := func(key string, allowed ...*c15BoltObj) {
				g := get(rs, "bk0", key)
				for _, a := range allowed {
					if a == nil && g.Status == 404 {
						return
					}
					if a != nil && g.Status == 200 && bytes.Equal(g.Body, a.body) && g.Header.Get("ETag") == etagOf(a.body) && g.Header.Get("X-Amz-Meta-Gen") == a.meta && g.Header.Get("Content-Length") == fmt.Sprint(len(a.body)) {
						return
					}
				}
				kind := "acknowledged-write-lost"
				if len(allowed) == 2 {
					kind = "in-flight-write-neither-old-nor-new"
				}
				fail(kind, "op %d %+v, file as of clock reading %d of the op: GET %s answers %d with %d bytes (md5 %s, ETag %s, Content-Length %s, gen %q)", i, op, si, key, g.Status, len(g.Body), md5hex(g.Body), g.Header.Get("ETag"), g.Header.Get("Content-Length"), g.Header.Get("X-Amz-Meta-Gen"))
			}
			if doc, lr := listDoc(rs, "bk0"); doc == nil {
				fail("list-failed-after-crash", "op %d %+v, file as of clock reading %d: listing answers %s", i, op, si, lr)
			} else {
				for _, c := range doc.Contents {
					if _, known := before[c.Key]; !known && c.Key != op.Key {
						fail("phantom-key-after-crash", "op %d %+v, file as of clock reading %d: the listing shows %q, which was never written", i, op, si, c.Key)
					}
				}
			}
			for k, v := range before {
				if k != op.Key {
					check(k, v)
				}
			}
			check(op.Key, before[op.Key], after)
			rs.Close()
			os.Remove(p)
		}
		if len(ds) > 0 {
			return ds, snapshots
		}
	}
	return ds, snapshots
}

func c15Run(t *testing.T, c *evid.Collector) {
	persistent := kindsFromEnv(backends.Persistent)
	// ---- (a) reopen programs
	// fixed reopen programs on every persistent configuration (ignore the seed)
	if evid.Shard() == 0 {
		mt := func(v string) [][2]string { return [][2]string{{"X-Amz-Meta-V", v}, {"Content-Type", "text/" + v}} }
		same := []byte("the same bytes, uploaded twice")
		for _, k := range persistent {
			for fi, fixed := range [][]prog.Op{
				{{K: "put", B: "bk0", Key: "a", Body: same, Meta: mt("first")}, {K: "get", B: "bk0", Key: "a"}, {K: "put", B: "bk0", Key: "a", Body: same, Meta: mt("second")}, {K: "reopen"}},
				{{K: "put", B: "bk0", Key: "d/x", Body: same, Meta: mt("first")}, {K: "reopen"}, {K: "head", B: "bk0", Key: "d/x"}, {K: "put", B: "bk0", Key: "d/x", Body: same, Meta: mt("second")}, {K: "reopen"}},
				{{K: "put", B: "bk0", Key: "a", Body: same, Meta: mt("first")}, {K: "copy", B: "bk0", Key: "a", SB: "bk0", SKey: "a", Meta: mt("by-copy")}, {K: "reopen"}},
				{{K: "put", B: "bk0", Key: "a", Body: same, Meta: mt("first")}, {K: "del", B: "bk0", Key: "a"}, {K: "put", B: "bk0", Key: "a", Body: same, Meta: mt("second")}, {K: "reopen"}, {K: "del", B: "bk0", Key: "a"}, {K: "reopen"}},
				// a delete sent again after the key's place was taken: an (empty) object now stands where the key's
				// directory was; the repeated delete finds nothing and leaves that object alone, across restarts
				{{K: "put", B: "bk0", Key: "logs/app.log", Body: same}, {K: "del", B: "bk0", Key: "logs/app.log"}, {K: "put", B: "bk0", Key: "logs", Body: []byte{}, Meta: mt("marker")}, {K: "del", B: "bk0", Key: "logs/app.log"},
					{K: "get", B: "bk0", Key: "logs"}, {K: "reopen"}, {K: "head", B: "bk0", Key: "logs"}, {K: "mdel", B: "bk0", Keys: []string{"logs/app.log", "logs/other/deeper"}}, {K: "list", B: "bk0"}, {K: "reopen"}},
				// an object assembled from parts reads the same after a restart (nothing about it lives in the process only)
				{{K: "init", B: "bk0", Key: "d/assembled", Meta: mt("first")}, {K: "part", Ref: 0, PartN: 1, Body: same}, {K: "part", Ref: 0, PartN: 2, Body: []byte("second part")}, {K: "complete", Ref: 0, Parts: []prog.Part{{N: 1}, {N: 2}}},
					{K: "put", B: "bk0", Key: "plain", Body: same}, {K: "reopen"}, {K: "head", B: "bk0", Key: "d/assembled"}, {K: "list", B: "bk0"}, {K: "reopen"}},
				// keys named like files the backends create for themselves
				{{K: "put", B: "bk0", Key: "other", Body: same}, {K: "head", B: "bk0", Key: "other"}, {K: "put", B: "bk0", Key: ".modtime-resolution", Body: same, Meta: mt("first")}, {K: "head", B: "bk0", Key: ".modtime-resolution"},
					{K: "reopen"}, {K: "head", B: "bk0", Key: "other"}, {K: "get", B: "bk0", Key: ".modtime-resolution"}, {K: "reopen"}},
				{{K: "put", B: "bk0", Key: "other", Body: same}, {K: "put", B: "bk0", Key: ".modtime-resolution-notes.txt", Body: same, Meta: mt("first")}, {K: "put", B: "bk0", Key: ".gofakes3-modtime-resolution", Body: same}, {K: "put", B: "bk0", Key: ".upload-1", Body: same},
					{K: "reopen"}, {K: "head", B: "bk0", Key: "other"}, {K: "get", B: "bk0", Key: ".modtime-resolution-notes.txt"}, {K: "get", B: "bk0", Key: ".gofakes3-modtime-resolution"}, {K: "list", B: "bk0"}, {K: "reopen"}},
				{{K: "put", B: "bk0", Key: "_meta", Body: same, Meta: mt("first")}, {K: "put", B: "bk0", Key: "metadata", Body: same}, {K: "put", B: "bk0", Key: "buckets", Body: same}, {K: "put", B: "bk0", Key: "bk0", Body: same},
					{K: "reopen"}, {K: "list", B: "bk0"}, {K: "del", B: "bk0", Key: "metadata"}, {K: "reopen"}},
			} {
				var ops []prog.Op
				if !k.IsSingle() {
					ops = append(ops, prog.Op{K: "mkbucket", B: "bk0"})
				}
				cs := c15Case{Backend: k, Ops: append(ops, fixed...)}
				ds, _ := c15Reopen(cs)
				c.Case(evid.FP("reopen-fixed", mustJSON(cs)), true, func() interface{} { return cs }, "check:reopen", "backend:"+string(k), fmt.Sprintf("src:fixed-%d", fi))
				report(c, "reopen", ds, cs)
			}
		}
	}
	rapidRun(t, "reopen", evid.Scale(250, 5000), func(rt *rapid.T) {
		k := rapid.SampledFrom(persistent).Draw(rt, "backend")
		cs := c15Case{Backend: k, Ops: c15GenProgram(rt, k.IsSingle())}
		ds, info := c15Reopen(cs)
		labels := []string{"check:reopen", "backend:" + string(k)}
		if info["reopen-after-overwrite-and-delete"] > 0 {
			labels = append(labels, "reopen-after-overwrite-and-delete")
		}
		c.Case(evid.FP("reopen", mustJSON(cs)), info["reopen-after-overwrite-and-delete"] > 0, func() interface{} { return cs }, labels...)
		if report(c, "reopen", ds, cs) {
			rt.Fatalf("C15 violated: %v", ds)
		}
	})
	// ---- (a') bolt: the file at every clock reading of every op
	if evid.Shard() == 0 && len(kindsFromEnv([]backends.Kind{backends.Bolt})) > 0 {
		big1, big2, big3 := 300*1024+17, 900*1024+5, 700*1024+1
		progs := [][]c15BoltOp{
			{{K: "put", Key: "a", Size: 10, Seed: 1}, {K: "put", Key: "a", Size: 20, Seed: 2}, {K: "del", Key: "a"}, {K: "put", Key: "d/x", Size: 5, Seed: 3}},
			{{K: "put", Key: "a", Size: big2, Seed: 1}, {K: "put", Key: "d/x", Size: 7, Seed: 2}, {K: "put", Key: "a", Size: big3, Seed: 3}, {K: "put", Key: "a", Size: big1, Seed: 4}, {K: "put", Key: "a", Size: 9, Seed: 5}, {K: "put", Key: "a", Size: big2, Seed: 6}},
			{{K: "put", Key: "a", Size: big1, Seed: 1}, {K: "copy", Key: "b", Src: "a"}, {K: "put", Key: "a", Size: big2, Seed: 2}, {K: "copy", Key: "b", Src: "a"}, {K: "copy", Key: "a", Src: "a"}, {K: "del", Key: "b"}, {K: "del", Key: "a"}},
			{{K: "put", Key: "a", Size: 40000, Seed: 1}, {K: "put", Key: "a", Size: 32768, Seed: 2}, {K: "put", Key: "a", Size: 32769, Seed: 3}, {K: "put", Key: "a", Size: 1<<20 + 1, Seed: 4}, {K: "put", Key: "a", Size: 1 << 20, Seed: 5}},
		}
		for pi, ops := range progs {
			ds, n := c15BoltSnapshots(ops)
			cs := c15Case{Backend: backends.Bolt, BoltOps: ops}
			c.Case(evid.FP("bolt-snapshots", mustJSON(ops)), n > 0, func() interface{} { return cs }, "check:bolt-snapshots", "backend:bolt", fmt.Sprintf("src:fixed-%d", pi), fmt.Sprintf("snapshots:%d", n))
			report(c, "bolt-snapshots", ds, cs)
		}
		rapidRun(t, "bolt-snapshots", evid.Scale(25, 600), func(rt *rapid.T) {
			var ops []c15BoltOp
			n := rapid.IntRange(2, 10).Draw(rt, "n")
			for i := 0; i < n; i++ {
				key := rapid.SampledFrom([]string{"a", "b", "d/x"}).Draw(rt, "key")
				switch rapid.IntRange(0, 5).Draw(rt, "kind") {
				case 0:
					ops = append(ops, c15BoltOp{K: "del", Key: key})
				case 1:
					ops = append(ops, c15BoltOp{K: "copy", Key: key, Src: rapid.SampledFrom([]string{"a", "b", "d/x"}).Draw(rt, "src")})
				default:
					ops = append(ops, c15BoltOp{K: "put", Key: key, Size: rapid.SampledFrom([]int{0, 1, 100, 40000, 270000, 600000, 1100000}).Draw(rt, "size"), Seed: uint64(i + 1)})
				}
			}
			ds, n2 := c15BoltSnapshots(ops)
			cs := c15Case{Backend: backends.Bolt, BoltOps: ops}
			c.Case(evid.FP("bolt-snapshots", mustJSON(ops)), n2 > 0, func() interface{} { return cs }, "check:bolt-snapshots", "backend:bolt", "src:random")
			if report(c, "bolt-snapshots", ds, cs) {
				rt.Fatalf("C15 violated: %v", ds)
			}
		})
	}
	// ---- (b) crash-point enumeration
	crashKinds := []backends.Kind{backends.MultiMem, backends.SingleMem}
	if evid.Thorough() {
		crashKinds = append(crashKinds, backends.MultiDir, backends.SingleDir)
	}
	crashKinds = kindsFromEnv(crashKinds)
	b := func(s string) []byte { return []byte(s) }
	big := prog.Pattern(50000, 9)
	meta := func(v string) [][2]string { return [][2]string{{"X-Amz-Meta-V", v}, {"Content-Type", "text/" + v}} }
	histories := [][]prog.Op{
		{{K: "put", B: "bk0", Key: "a", Body: b("old-a"), Meta: meta("old")}, {K: "put", B: "bk0", Key: "d/x", Body: b("dx")}, {K: "put", B: "bk0", Key: "a", Body: b("new-a-longer"), Meta: meta("new")}},
		{{K: "put", B: "bk0", Key: "a", Body: big, Meta: meta("old")}, {K: "put", B: "bk0", Key: "a", Body: b("short"), Meta: meta("new")}},
		{{K: "put", B: "bk0", Key: "a", Body: b("short"), Meta: meta("old")}, {K: "put", B: "bk0", Key: "d/x", Body: b("dx")}, {K: "put", B: "bk0", Key: "a", Body: big, Meta: meta("new")}},
		{{K: "put", B: "bk0", Key: "d/x", Body: b("dx")}, {K: "put", B: "bk0", Key: "d/e/z", Body: b("fresh"), Meta: meta("new")}},
		// same-size overwrites: only the modification time tells the stored metadata is stale
		{{K: "put", B: "bk0", Key: "a", Body: b("first version!"), Meta: meta("old")}, {K: "tick"}, {K: "put", B: "bk0", Key: "a", Body: b("other version?"), Meta: meta("new")}},
		{{K: "put", B: "bk0", Key: "d/x", Body: prog.Pattern(40000, 1), Meta: meta("old")}, {K: "tick"}, {K: "put", B: "bk0", Key: "d/x", Body: prog.Pattern(40000, 2), Meta: meta("new")}},
		{{K: "put", B: "bk0", Key: "a", Body: b("aaa")}, {K: "put", B: "bk0", Key: "d/x", Body: b("dx"), Meta: meta("old")}, {K: "del", B: "bk0", Key: "d/x"}},
		{{K: "put", B: "bk0", Key: "a", Body: b("aaa"), Meta: meta("old")}, {K: "put", B: "bk0", Key: "b", Body: b("bbb")}, {K: "copy", B: "bk0", Key: "b", SB: "bk0", SKey: "a"}},
		{{K: "put", B: "bk0", Key: "a", Body: b("aaa")}, {K: "put", B: "bk0", Key: "d/x", Body: b("dx")}, {K: "put", B: "bk0", Key: "d/y", Body: b("dy")}, {K: "mdel", B: "bk0", Keys: []string{"a", "d/x", "nope"}}},
	}
	npoints := 0
	for _, k := range crashKinds {
		for hi, h := range histories {
			ops := h
			if !k.IsSingle() {
				ops = append([]prog.Op{{K: "mkbucket", B: "bk0"}}, h...)
			}
			base := c15Case{Backend: k, Ops: ops, Target: len(ops) - 1}
			n, trace, d := c15CrashPoints(base)
			if len(d) > 0 {
				report(c, "crash", d, base)
				continue
			}
			for kk := 0; kk < n; kk++ {
				npoints++
				if npoints%evid.Shards() != evid.Shard() {
					continue
				}
				cs := base
				cs.K = kk
				ds, inside := c15Crash(cs)
				labels := []string{"check:crash", "backend:" + string(k), fmt.Sprintf("history:%d", hi)}
				if inside {
					labels = append(labels, "crash-inside-overwrite")
				}
				if kk < len(trace) {
					labels = append(labels, "before:"+strings.Fields(trace[kk])[0])
				}
				c.Case(evid.FP("crash", mustJSON(cs)), inside || kk > 0, func() interface{} { return cs }, labels...)
				report(c, "crash", c15Classify(cs, ds), cs)
			}
		}
	}
	c.Set("crash_points_enumerated", npoints)
	c.Set("exhaustive_scope", fmt.Sprintf("every mutating file-system call (writes in 16 KiB units) of the last op of %d histories on %v: complete", len(histories), crashKinds))
	c.Exhaustive(false)
	// random histories for the crash enumeration
	rapidRun(t, "crash-random", evid.Scale(40, 1500), func(rt *rapid.T) {
		k := rapid.SampledFrom(crashKinds).Draw(rt, "backend")
		var ops []prog.Op
		if !k.IsSingle() {
			ops = append(ops, prog.Op{K: "mkbucket", B: "bk0"})
		}
		n := rapid.IntRange(1, 6).Draw(rt, "n")
		for i := 0; i < n; i++ {
			key := rapid.SampledFrom([]string{"a", "d/x", "d/e/z"}).Draw(rt, "key")
			switch rapid.IntRange(0, 3).Draw(rt, "kind") {
			case 0:
				ops = append(ops, prog.Op{K: "del", B: "bk0", Key: key})
			default:
				body := genBody(rt, "body")
				if rapid.IntRange(0, 3).Draw(rt, "big") == 0 {
					body = prog.Pattern(rapid.IntRange(17000, 60000).Draw(rt, "bigsize"), uint64(i))
				}
				ops = append(ops, prog.Op{K: "put", B: "bk0", Key: key, Body: body, Meta: meta(fmt.Sprint(i))})
			}
		}
		base := c15Case{Backend: k, Ops: ops, Target: len(ops) - 1}
		np, _, d := c15CrashPoints(base)
		if len(d) > 0 {
			return
		}
		for kk := 0; kk < np; kk++ {
			cs := base
			cs.K = kk
			ds, inside := c15Crash(cs)
			c.Case(evid.FP("crash", mustJSON(cs)), inside || kk > 0, func() interface{} { return cs }, "check:crash", "backend:"+string(k), "src:random")
			if report(c, "crash", c15Classify(cs, ds), cs) {
				rt.Fatalf("C15 violated: %v", ds)
			}
		}
	})
	// ---- (c) the real binary
	if evid.Shard() == 0 {
		for _, cfg := range c15BinCfgs {
			rounds, kill := 2, false
			ds, _ := c15BinaryRounds(cfg, rounds, kill, uint64(evid.Seed()))
			c15RecordBinary(c, cfg, ds, rounds, kill, 0)
		}
	}
	if evid.Thorough() {
		for i, cfg := range c15BinCfgs {
			if i%evid.Shards() != evid.Shard() {
				continue
			}
			rounds := 40
			ds, inflight := c15BinaryRounds(cfg, rounds, true, uint64(evid.Seed())+uint64(i))
			c15RecordBinary(c, cfg, ds, rounds, true, inflight)
		}
	}
}

func c15RecordBinary(c *evid.Collector, cfg c15BinCfg, ds []disc, rounds int, kill bool, inflight int) {
	var real []disc
	for _, d := range ds {
		if strings.HasPrefix(d.Kind, "inconclusive:") {
			c.Inconclusive(d.Detail)
			continue
		}
		if cfg.Name != "bolt" && (d.Kind == "in-flight-write-neither-old-nor-new") {
			d.KF = "KF-C15-fs-crash-atomicity"
		}
		real = append(real, d)
	}
	cs := map[string]interface{}{"binary": "cmd/gofakes3", "backend": cfg.Name, "rounds": rounds, "kill9": kill, "kills_with_request_in_flight": inflight}
	labels := []string{"check:binary", "binary-backend:" + cfg.Name}
	if kill {
		labels = append(labels, "kill-9")
	}
	c.Case(evid.FP("binary", cfg.Name, fmt.Sprint(kill, rounds)), !kill || inflight > 0, func() interface{} { return cs }, labels...)
	for i := 1; i < rounds; i++ {
		c.Case(evid.FP("binary", cfg.Name, fmt.Sprint(kill, rounds, i)), kill && i <= inflight, nil, "check:binary-round")
	}
	report(c, "binary", real, cs)
}
